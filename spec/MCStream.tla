------------------------------ MODULE MCStream ------------------------------
(* Bounded model of the whole stack (C02): byte decoder x recogniser x screen. *)
(* Streams are sequences of up to MaxTok tokens from an alphabet that mixes    *)
(* text, controls, pieces of escape sequences, multi-byte characters and       *)
(* ill-formed bytes.  Invariant: for every placement of one cut, and for       *)
(* byte-at-a-time feeding, the state after the chunked feeds equals the state  *)
(* after feeding the concatenation in one call (UTF-8 and 8-bit mode).         *)
(* Emit: one vector per stream = the same stream under every cut placement,    *)
(* replayed on the real code and compared run against run.                     *)
EXTENDS Props, Recognizer, Utf8, Json

CONSTANTS MaxTok, Utf8Mode, EmitVectors, Cols, Lines

VARIABLES toks
vars == <<toks>>

WmS == << <<26085, 2, 0>>, <<128512, 2, 0>> >>
Tokens == { <<97>>, <<27>>, <<91>>, <<93>>, <<59>>, <<50>>, <<72>>, <<109>>, <<63>>, <<7>>, <<92>>, <<10>>,
            <<195, 169>>, <<230, 151, 165>>, <<240, 159, 152, 128>>, <<255>>, <<194, 155>>, <<48, 59, 116>>, <<104>>, <<52>>,
            <<27, 37, 64>>, <<27, 37, 71>>, <<14>> }     \* ESC % @ / ESC % G inside the stream are consumed and switch nothing
Bytes(ts) == FoldLeft(LAMBDA acc, t : acc \o t, <<>>, ts)

\* composite state and one feed() call
CInit == [pend |-> <<>>, rec |-> Ground, scr |-> Fresh(Cols, Lines)]
WithWm(e) == [op |-> e.op, p |-> e.p, s |-> e.s, pr |-> e.pr, wm |-> WmS]
FeedB(cs, chunk) ==
  LET d  == IF Utf8Mode THEN DecodeCall(cs.pend, chunk) ELSE [out |-> chunk, pend |-> <<>>]
      rf == RFeed(cs.rec, d.out, Utf8Mode)
  IN [pend |-> d.pend, rec |-> rf.r, scr |-> FoldLeft(LAMBDA s, e : Apply(s, WithWm(e)), cs.scr, rf.evs)]
FeedAll(chunks) == FoldLeft(FeedB, CInit, chunks)

Split1(q, k) == << SubSeq(q, 1, k), SubSeq(q, k + 1, Len(q)) >>
Singles(q) == [i \in 1..Len(q) |-> <<q[i]>>]
\* (an empty feed() at a cut, and between any two units: state kept about "something pending" must not be derived from the last chunk alone)
SplitE(q, k) == << SubSeq(q, 1, k), <<>>, SubSeq(q, k + 1, Len(q)) >>
SinglesE(q) == [i \in 1..(2 * Len(q)) |-> IF i % 2 = 1 THEN <<q[(i + 1) \div 2]>> ELSE <<>>]
Placements(q) == << <<q>> >> \o [k \in 1..(Len(q) - 1) |-> Split1(q, k)] \o << Singles(q) >> \o << <<q, <<>>>> >> \o << << <<>>, q >> >>
                 \o [k \in 1..(Len(q) - 1) |-> SplitE(q, k)] \o << SinglesE(q) >>

Init == toks \in UNION { [1..k -> Tokens] : k \in 1..MaxTok }
Next == UNCHANGED toks
Spec == Init /\ [][Next]_vars

ChunkIndependent ==
  LET q == Bytes(toks)  whole == FeedAll(<<q>>) IN
  \A i \in 1..Len(Placements(q)) : FeedAll(Placements(q)[i]) = whole

\* the character stream (for the Parser port): cut at every character boundary
CharStream == IF Utf8Mode THEN DecodeWhole(Bytes(toks)) ELSE Bytes(toks)
Emit == EmitVectors =>
  PrintT(<<"VEC", ToJson([C |-> Cols, L |-> Lines, utf8 |-> Utf8Mode,
                          cuts |-> [i \in 1..Len(Placements(Bytes(toks))) |->
                                      [b |-> Placements(Bytes(toks))[i],
                                       s |-> IF i <= Len(Placements(CharStream)) THEN Placements(CharStream)[i] ELSE <<CharStream>>]]])>>)
=============================================================================
