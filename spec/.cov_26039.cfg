SPECIFICATION Spec
CONSTANTS
  Model = "C05"
  Geoms <- GTiny
  EmitVectors = FALSE
  TextLen = 2
  SgrMax = 110
  ModeMax = 40
INVARIANTS Holds WellFormedInv DirtyInv SelfInv
CHECK_DEADLOCK FALSE
