-------------------------------- MODULE Props --------------------------------
(* The listed properties as predicates over (pre-state, event, post-state).   *)
(* Each property has a SCOPE (the events it speaks about) and names the       *)
(* components of the state it constrains; a check for Cxx asserts only Cxx's  *)
(* predicate on events in Cxx's scope (attribution, DESIGN.md 5.1).           *)
(* The same predicates are used on the specification's own transitions (MC),  *)
(* on TLC-generated vectors replayed on the code, and on recorded traces.     *)
EXTENDS ScreenOps

AllFields == {"L","C","g","x","y","attr","hid","modes","mar","tabs","title","icon",
              "cs","g0","g1","saves","savedcols","dirty"}
Agree(a, b, F) == \A f \in F : a[f] = b[f]
DiffFields(a, b, F) == { f \in F : a[f] # b[f] }
DiffRows(a, b) == IF a.L # b.L \/ a.C # b.C THEN {-1} ELSE { r \in 0..(a.L - 1) : a.g[r + 1] # b.g[r + 1] }

-----------------------------------------------------------------------------
(* C09 -- the screen state is always well-formed                              *)
IsHexCp(cp) == (cp >= 48 /\ cp <= 57) \/ (cp >= 97 /\ cp <= 102) \/ (cp >= 65 /\ cp <= 70)
\* cols: <<string, code points>> for every distinct colour string in the state
ColourOK(str, cols) ==
  \/ str \in ColourNameSet
  \/ \E i \in 1..Len(cols) : cols[i][1] = str /\ cols[i][2] # <<>>
                             /\ \A k \in 1..Len(cols[i][2]) : IsHexCp(cols[i][2][k])
Shape(s) ==
  /\ s.L >= 1 /\ s.C >= 1
  /\ Len(s.g) = s.L /\ \A r \in 1..s.L : Len(s.g[r]) = s.C
CursorOK(s)  == 0 <= s.y /\ s.y < s.L /\ 0 <= s.x /\ s.x <= s.C
MarginsOK(s) == s.mar = <<>> \/ (Len(s.mar) = 2 /\ 0 <= s.mar[1] /\ s.mar[1] < s.mar[2] /\ s.mar[2] <= s.L - 1)
DirtyOK(s)   == s.dirty \subseteq 0..(s.L - 1)
ColoursOK(s, cols) ==
  /\ \A r \in 1..s.L, c \in 1..s.C : ColourOK(s.g[r][c].fg, cols) /\ ColourOK(s.g[r][c].bg, cols)
  /\ ColourOK(s.attr.fg, cols) /\ ColourOK(s.attr.bg, cols)
\* the same, restricted to the given rows (1-based) - enough after an event that changed only those
ColoursOKRows(s, cols, rows) ==
  /\ \A r \in rows, c \in 1..s.C : ColourOK(s.g[r][c].fg, cols) /\ ColourOK(s.g[r][c].bg, cols)
  /\ ColourOK(s.attr.fg, cols) /\ ColourOK(s.attr.bg, cols)
\* what the specification's operators need in order to be defined on s
WellFormedCore(s) == Shape(s) /\ CursorOK(s) /\ MarginsOK(s)
WellFormed(s, cols) == WellFormedCore(s) /\ DirtyOK(s) /\ ColoursOK(s, cols)
\* names of the violated clauses, for reports
WellFormedBad(s, cols) ==
  (IF Shape(s) THEN {} ELSE {"shape"}) \cup (IF CursorOK(s) THEN {} ELSE {"cursor"}) \cup
  (IF MarginsOK(s) THEN {} ELSE {"margins"}) \cup (IF DirtyOK(s) THEN {} ELSE {"dirty"}) \cup
  (IF Shape(s) /\ ~ColoursOK(s, cols) THEN {"colour"} ELSE {})
\* the clauses that do not need a pass over the grid
WellFormedBadCheap(s) ==
  (IF Shape(s) THEN {} ELSE {"shape"}) \cup (IF CursorOK(s) THEN {} ELSE {"cursor"}) \cup
  (IF MarginsOK(s) THEN {} ELSE {"margins"}) \cup (IF DirtyOK(s) THEN {} ELSE {"dirty"})

-----------------------------------------------------------------------------
(* scopes                                                                    *)
\* does a draw go through a non-identity translation (then its text is C20's business)
Translated(s, ev) == \E i \in 1..Len(ev.s) : Translate(ActiveTable(s), ev.s[i]) # ev.s[i]
\* a translated draw whose placement is the plain case (every translated character
\* narrow, replace mode, not at the pending-wrap column): what is left to judge is
\* the translation itself
\* a draw containing a code point above 255 (none of them combining): "code points above 255 pass through untranslated"
HighPlain(s, ev) ==
  /\ \E i \in 1..Len(ev.s) : ev.s[i] > 255
  /\ \A i \in 1..Len(ev.s) : ~Comb(ev.wm, ev.s[i])
SimpleDraw(s, ev) ==
  /\ s.x < s.C /\ IRM \notin s.modes
  /\ \A i \in 1..Len(ev.s) : W(ev.wm, Translate(ActiveTable(s), ev.s[i])) = 1

C05Ops == {"cuu","cud","cuf","cub","cnl","cpl","cha","vpa","cup","bs","cr"}
C06Ops == {"ind","lf","ri","il","dl","decstbm"}
C07Ops == {"ed","el","ech"}
C08Ops == {"sgr"}
C12Ops == {"sm","rm"}
C13Ops == {"ich","dch"}
C14Ops == {"decsc","decrc"}
C15Ops == {"ris"}
C16Ops == {"resize"}
C18Ops == {"ht","hts","tbc"}
C19Ops == {"title","icon"}
C20Ops == {"so","si","charset"}

\* operations whose delivery through the parser (operation, parameters, order) belongs to a property
WirePropIds == {"C04","C05","C06","C07","C08","C12","C13","C14","C15","C18","C20"}
WireOps(id) ==
  CASE id = "C04" -> {"draw"}
    [] id = "C05" -> C05Ops
    [] id = "C06" -> C06Ops
    [] id = "C07" -> C07Ops
    [] id = "C08" -> C08Ops
    [] id = "C12" -> C12Ops
    [] id = "C13" -> C13Ops
    [] id = "C14" -> C14Ops
    [] id = "C15" -> C15Ops
    [] id = "C18" -> C18Ops
    [] id = "C20" -> C20Ops
    [] OTHER -> {}

InScope(id, pre, ev) ==
  CASE id = "C04" -> ev.op = "draw" /\ ~Translated(pre, ev)
    [] id = "C05" -> ev.op \in C05Ops
    [] id = "C06" -> ev.op \in C06Ops
    [] id = "C07" -> ev.op \in C07Ops
    [] id = "C08" -> ev.op \in C08Ops
    [] id = "C10" -> ev.op = "display"
    [] id = "C12" -> ev.op \in C12Ops
    [] id = "C13" -> ev.op \in C13Ops
    [] id = "C14" -> ev.op \in C14Ops
    [] id = "C15" -> ev.op \in C15Ops
    [] id = "C16" -> ev.op \in C16Ops
    [] id = "C18" -> ev.op \in C18Ops \/ ev.op = "ris"       \* "initially and after reset": the stops RIS leaves
    [] id = "C19" -> ev.op \in C19Ops
    [] id = "C20" -> ev.op \in C20Ops \/ (ev.op = "draw" /\ (Translated(pre, ev) \/ HighPlain(pre, ev)) /\ SimpleDraw(pre, ev))
    [] id = "ALL" -> ev.op \in KnownOps \ {"display"}
    [] OTHER -> FALSE

\* deterministic properties: every component except `dirty` must equal the specification's
DetProps == {"C05","C07","C08","C13","C14","C18","C19","C20","ALL"}
NoDirty == AllFields \ {"dirty"}

-----------------------------------------------------------------------------
(* step predicates: the set of components in which post violates the property *)
(* (empty = holds).  pre must satisfy WellFormedCore.                          *)
RowsOf(s) == 0..(s.L - 1)

Bad_Det(pre, ev, post) == DiffFields(Apply(pre, ev), post, NoDirty)

\* C04: a combining mark at the pending-wrap column may wrap first or not (freedom point)
\* and a wrap from below the scrolling region may land on the bottom margin (the code) or on the next line
Bad_C04(pre, ev, post) ==
  LET a == DiffFields(Apply(pre, ev), post, NoDirty) IN
  IF a = {} THEN {}
  ELSE IF \E zw \in BOOLEAN, xt \in BOOLEAN : DiffFields(ApplyX(pre, ev, zw, xt), post, NoDirty) = {} THEN {} ELSE a

\* C06: everything but dirty; index / reverse index with the cursor outside the region may move onto the
\* margin (the code) or one line towards the screen edge (freedom point)
Bad_C06(pre, ev, post) ==
  LET a == DiffFields(Apply(pre, ev), post, NoDirty) IN
  IF a = {} THEN {}
  ELSE IF DiffFields(ApplyX(pre, ev, TRUE, TRUE), post, NoDirty) = {} THEN {} ELSE a

\* C12: everything but dirty.  DECCOLM "erases the screen": erasure is what C07 defines (spaces carrying the
\* current rendition), so the grid is compared in full - an earlier version compared cell texts only and then
\* missed a DECCOLM that erased the old columns only (seeded change C12c).
Bad_C12(pre, ev, post) == DiffFields(Apply(pre, ev), post, NoDirty)

\* C15: everything, including "every row dirty"
Bad_C15(pre, ev, post) ==
  DiffFields(Apply(pre, ev), post, NoDirty) \cup (IF RowsOf(post) \subseteq post.dirty THEN {} ELSE {"dirty"})

\* C16: content kept in place, region reset, all rows dirty, cursor merely inside the new bounds
Bad_C16(pre, ev, post) ==
  LET l == IF P(ev, 1) < 0 THEN pre.L ELSE P(ev, 1)
      c == IF P(ev, 2) < 0 THEN pre.C ELSE P(ev, 2)
      e == Apply(pre, ev) IN
  IF l = pre.L /\ c = pre.C THEN DiffFields(pre, post, AllFields)          \* complete no-op
  ELSE DiffFields(e, post, AllFields \ {"x","y","mar","dirty"})
       \cup (IF post.mar \in {<<>>, <<0, l - 1>>} THEN {} ELSE {"mar"})
       \cup (IF 0..(l - 1) \subseteq post.dirty THEN {} ELSE {"dirty"})
       \cup (IF 0 <= post.y /\ post.y < l /\ 0 <= post.x /\ post.x <= c THEN {} ELSE {"cursor"})

\* C10: display() returns the rendering and changes nothing.  A non-placeholder
\* cell directly after a wide lead may be skipped (the code) or rendered.
RECURSIVE RenderAltFrom(_, _, _)
RenderAltFrom(row, wm, i) ==
  IF i > Len(row) THEN <<>>
  ELSE LET d == row[i].d
           wide == d # <<>> /\ W(wm, d[1]) = 2
           skip == wide /\ i + 1 <= Len(row) /\ row[i + 1].d = <<>>
       IN d \o RenderAltFrom(row, wm, IF skip THEN i + 2 ELSE i + 1)
RenderAlt(s, wm) == [r \in 1..s.L |-> RenderAltFrom(s.g[r], wm, 1)]
Bad_C10(pre, ev, post, disp) ==
  DiffFields(pre, post, AllFields)
  \cup (IF Len(disp) = pre.L /\ \A r \in 1..Min2(pre.L, Len(disp)) :
              disp[r] = Render(pre, ev.wm)[r] \/ disp[r] = RenderAlt(pre, ev.wm)[r]
        THEN {} ELSE {"display"})

Bad(id, pre, ev, post, disp) ==
  CASE id = "C18" /\ ev.op = "ris" -> DiffFields(Apply(pre, ev), post, {"tabs"})    \* (everything else RIS does is C15's)
    [] id \in DetProps -> Bad_Det(pre, ev, post)
    [] id = "C04" -> Bad_C04(pre, ev, post)
    [] id = "C06" -> Bad_C06(pre, ev, post)
    [] id = "C10" -> Bad_C10(pre, ev, post, disp)
    [] id = "C12" -> Bad_C12(pre, ev, post)
    [] id = "C15" -> Bad_C15(pre, ev, post)
    [] id = "C16" -> Bad_C16(pre, ev, post)
    [] OTHER -> {}

-----------------------------------------------------------------------------
(* C17 -- dirty tracking.  need = rows whose appearance changed since the     *)
(* embedder last cleared the set.                                             *)
Changed(pre, post) ==
  IF pre.L # post.L \/ pre.C # post.C THEN RowsOf(post)
  ELSE { r \in RowsOf(post) : pre.g[r + 1] # post.g[r + 1] }
\* events after which every row must be marked (statement of C17)
ScreenWide(pre, ev) ==
  LET e == Apply([pre EXCEPT !.sc = 0], ev) IN
  \/ ev.op \in {"ris", "decaln"}
  \/ e.L # pre.L \/ e.C # pre.C
  \/ (DECSCNM \in e.modes) # (DECSCNM \in pre.modes)
  \/ e.sc > 0
NeedNext(need, pre, ev, post) ==
  IF ev.op = "cleardirty" THEN {}
  ELSE ((need \cap RowsOf(post)) \cup Changed(pre, post)) \cup (IF ScreenWide(pre, ev) THEN RowsOf(post) ELSE {})
\* a row is reported when it becomes missing / stale, not again while it stays so
Bad_C17(need0, pre, need1, post) ==
  (IF (need1 \ post.dirty) \subseteq (need0 \ pre.dirty) THEN {} ELSE {"dirty-missing"}) \cup
  (IF (post.dirty \ RowsOf(post)) \subseteq (pre.dirty \ RowsOf(pre)) THEN {} ELSE {"dirty-stale"})
=============================================================================
