------------------------------- MODULE Util -------------------------------
(* Small pure helpers shared by every module.  No VARIABLES anywhere in the *)
(* operator modules: they are EXTENDed by the models and the trace spec.     *)
EXTENDS Naturals, Integers, Sequences, FiniteSets, SequencesExt, TLC

Min2(a, b) == IF a <= b THEN a ELSE b
Max2(a, b) == IF a >= b THEN a ELSE b
Clamp(v, lo, hi) == Max2(lo, Min2(v, hi))

\* "absent (-1) or zero means one"
N1(n) == IF n <= 0 THEN 1 ELSE n
\* "absent means zero"
N0(n) == IF n < 0 THEN 0 ELSE n

Rep(n, v) == [i \in 1..n |-> v]

SetMin(S) == CHOOSE m \in S : \A o \in S : m <= o
SetMax(S) == CHOOSE m \in S : \A o \in S : m >= o

\* attribute bits of a rendition
BOLD   == 1
ITAL   == 2
UNDER  == 4
STRIKE == 8
REV    == 16
BLINK  == 32
HasBit(a, b) == (a \div b) % 2 = 1
SetBit(a, b) == IF HasBit(a, b) THEN a ELSE a + b
ClrBit(a, b) == IF HasBit(a, b) THEN a - b ELSE a

\* lower-case hexadecimal, two digits (argument 0..255)
HexDigits == <<"0","1","2","3","4","5","6","7","8","9","a","b","c","d","e","f">>
Hex2(n) == HexDigits[(n \div 16) + 1] \o HexDigits[(n % 16) + 1]

\* sequence <-> set
SeqToSet(q) == { q[i] : i \in 1..Len(q) }

\* take / drop on sequences (1-based, total)
Take(q, n) == SubSeq(q, 1, Min2(n, Len(q)))
Drop(q, n) == SubSeq(q, Min2(n, Len(q)) + 1, Len(q))
=============================================================================
