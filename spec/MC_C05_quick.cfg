SPECIFICATION Spec
CONSTANTS
  Model = "C05"
  Geoms <- GQuick
  EmitVectors = TRUE
INVARIANTS Holds WellFormedInv DirtyInv SelfInv Emit
CHECK_DEADLOCK FALSE
