--------------------------------- MODULE Sgr ---------------------------------
(* Select Graphic Rendition as a left-to-right fold over the parameter list  *)
(* (property C08).  A rendition is [fg, bg : STRING, a : 0..63].  The xterm   *)
(* 256-colour palette is computed arithmetically (16 base colours, 6x6x6 cube *)
(* with levels 00 5f 87 af d7 ff, 24 greys 8+10i), not copied from the code.  *)
EXTENDS Util

ColourNames == <<"black", "red", "green", "brown", "blue", "magenta", "cyan", "white">>
BrightNames == <<"brightblack", "brightred", "brightgreen", "brightbrown",
                 "brightblue", "brightmagenta", "brightcyan", "brightwhite">>

Base16 == << <<0,0,0>>, <<205,0,0>>, <<0,205,0>>, <<205,205,0>>, <<0,0,238>>, <<205,0,205>>,
             <<0,205,205>>, <<229,229,229>>, <<127,127,127>>, <<255,0,0>>, <<0,255,0>>,
             <<255,255,0>>, <<92,92,255>>, <<255,0,255>>, <<0,255,255>>, <<255,255,255>> >>
CubeLevel == <<0, 95, 135, 175, 215, 255>>

Rgb(r, g, b) == Hex2(r) \o Hex2(g) \o Hex2(b)

\* entry n (0..255) of the xterm palette as "rrggbb"
Palette(n) ==
  IF n < 16 THEN Rgb(Base16[n + 1][1], Base16[n + 1][2], Base16[n + 1][3])
  ELSE IF n < 232 THEN
     LET i == n - 16 IN Rgb(CubeLevel[((i \div 36) % 6) + 1], CubeLevel[((i \div 6) % 6) + 1], CubeLevel[(i % 6) + 1])
  ELSE LET v == 8 + 10 * (n - 232) IN Rgb(v, v, v)

SetAttrs == [c \in {1, 3, 4, 5, 7, 9} |->
               CASE c = 1 -> BOLD [] c = 3 -> ITAL [] c = 4 -> UNDER [] c = 5 -> BLINK [] c = 7 -> REV [] c = 9 -> STRIKE]

At(ps, i) == IF i <= Len(ps) THEN ps[i] ELSE -1

\* one step of the fold at position i: returns <<rendition', next position>>
SgrStep(def, r, ps, i) ==
  LET c == ps[i] IN
  CASE c = 0                 -> << def, i + 1 >>
    [] c \in {1, 3, 4, 5, 7, 9}       -> << [r EXCEPT !.a = SetBit(r.a, SetAttrs[c])], i + 1 >>
    [] c \in {22, 23, 24, 25, 27, 29} -> << [r EXCEPT !.a = ClrBit(r.a, SetAttrs[IF c = 22 THEN 1 ELSE c - 20])], i + 1 >>
    [] c \in 30..37          -> << [r EXCEPT !.fg = ColourNames[c - 29]], i + 1 >>
    [] c = 39                -> << [r EXCEPT !.fg = "default"], i + 1 >>
    [] c \in 40..47          -> << [r EXCEPT !.bg = ColourNames[c - 39]], i + 1 >>
    [] c = 49                -> << [r EXCEPT !.bg = "default"], i + 1 >>
    [] c \in 90..97          -> << [r EXCEPT !.fg = BrightNames[c - 89]], i + 1 >>
    [] c \in 100..107        -> << [r EXCEPT !.bg = BrightNames[c - 99]], i + 1 >>
    [] c \in {38, 48} ->
         (* the documented parser: pop the selector; 5 pops one more, 2 pops three more,   *)
         (* anything else pops nothing further; a truncated tail is consumed to the end   *)
         LET sel == At(ps, i + 1)
             set(col) == IF c = 38 THEN [r EXCEPT !.fg = col] ELSE [r EXCEPT !.bg = col]
         IN  IF sel = 5 THEN
                LET n == At(ps, i + 2) IN
                << IF n >= 0 /\ n <= 255 THEN set(Palette(n)) ELSE r, i + 3 >>
             ELSE IF sel = 2 THEN
                LET rr == At(ps, i + 2)  gg == At(ps, i + 3)  bb == At(ps, i + 4) IN
                << IF rr >= 0 /\ gg >= 0 /\ bb >= 0 /\ rr <= 255 /\ gg <= 255 /\ bb <= 255
                     THEN set(Rgb(rr, gg, bb)) ELSE r, i + 5 >>
             ELSE << r, i + 2 >>
    [] OTHER                 -> << r, i + 1 >>

RECURSIVE SgrFrom(_, _, _, _)
SgrFrom(def, r, ps, i) ==
  IF i > Len(ps) THEN r
  ELSE LET st == SgrStep(def, r, ps, i) IN SgrFrom(def, st[1], ps, st[2])

\* def = the default rendition (reverse set iff DECSCNM); empty list = reset
Sgr(def, r, ps) == IF ps = <<>> THEN def ELSE SgrFrom(def, r, ps, 1)

\* a colour value the state may legitimately hold (C09): a documented name or hex digits
ColourNameSet == {"default"} \cup SeqToSet(ColourNames) \cup SeqToSet(BrightNames)
=============================================================================
