----------------------------- MODULE MCTerminal -----------------------------
(* Model parameters for Terminal.tla (alphabets as operators, since TLC's cfg  *)
(* syntax cannot express records).                                             *)
EXTENDS Terminal

Ev(op, p)      == [op |-> op, p |-> p, s |-> <<>>, pr |-> FALSE, wm |-> <<>>]
EvM(op, p, pr) == [op |-> op, p |-> p, s |-> <<>>, pr |-> pr, wm |-> <<>>]
EvS(op, t)     == [op |-> op, p |-> <<>>, s |-> t, pr |-> FALSE, wm |-> <<>>]

\* bytes: text, controls, the pieces of CSI / OSC / ESC sequences, multi-byte and ill-formed input
MCBytes == {97, 27, 91, 93, 59, 63, 48, 49, 50, 53, 57, 72, 74, 75, 76, 77, 80, 64, 65, 66, 67, 68, 104, 108, 109, 114, 99, 55, 56,
            7, 8, 9, 10, 13, 14, 15, 24, 92, 36, 40, 230, 151, 165, 195, 169, 204, 182, 255, 194, 155, 156}
MCChars == {120, 19968, 822, 8203, 155, 157, 156, 27, 91, 72, 59, 49, 10}
MCApi == { Ev(op, <<n>>) : op \in {"cuu", "cud", "cuf", "cub", "ich", "dch", "il", "dl", "ech", "vpa", "cha"}, n \in {-1, 0, 2, 9999} }
         \cup { Ev("cup", <<a, b>>) : a \in {-1, 2, 9999}, b \in {-1, 2, 9999} }
         \cup { Ev("decstbm", <<a, b>>) : a \in {-1, 0, 1, 2}, b \in {-1, 2, 3} }
         \cup { EvM(op, <<m>>, TRUE) : op \in {"sm", "rm"}, m \in {3, 5, 6, 7, 25} }
         \cup { EvM(op, <<m>>, FALSE) : op \in {"sm", "rm"}, m \in {4, 20} }
         \cup { Ev(op, <<>>) : op \in {"decsc", "decrc", "ind", "lf", "ri", "ris", "ht", "hts", "bs", "cr", "decaln", "so", "si"} }
         \cup { Ev("ed", <<n>>) : n \in {-1, 1, 2} } \cup { Ev("el", <<n>>) : n \in {-1, 1, 2, 7} } \cup { Ev("tbc", <<n>>) : n \in {-1, 3} }
         \cup { Ev("sgr", q) : q \in { <<>>, <<1, 31>>, <<7>>, <<38, 5, 200>>, <<48, 2, 1, 2, 3>>, <<38, 2, 300>> } }
         \cup { EvS("draw", t) : t \in { <<120>>, <<19968>>, <<120, 822>>, <<8203>>, <<120, 121, 122, 119>> } }
         \cup { [Ev("charset", <<w>>) EXCEPT !.s = <<k>>] : w \in {40, 41}, k \in {48, 66, 85} }
MCWm == << <<19968, 2, 0>>, <<26085, 2, 0>>, <<822, 0, 1>>, <<8203, 0, 0>> >>

StepBound == steps <= 60
=============================================================================
