-------------------------------- MODULE Utf8 --------------------------------
(* Streaming UTF-8 decoding (property C11).                                   *)
(*   DecStep / DecodeCall : the incremental automaton, one feed() call at a   *)
(*                          time, with the incomplete tail carried in `pend`  *)
(*   DecodeWhole          : an independent, position-based formulation over   *)
(*                          the whole byte string (Unicode Table 3-7 and the  *)
(*                          maximal-subpart replacement rule)                 *)
(* MC_Utf8 checks the two against each other for all byte strings over one    *)
(* representative per byte class and all cut placements.                      *)
EXTENDS Util

REPL == 65533

InR(b, lo, hi) == b >= lo /\ b <= hi
IsLead2(b) == InR(b, 194, 223)
IsLead3(b) == InR(b, 224, 239)
IsLead4(b) == InR(b, 240, 244)
IsLead(b)  == IsLead2(b) \/ IsLead3(b) \/ IsLead4(b)
SeqLen(b)  == IF b < 128 THEN 1 ELSE IF IsLead2(b) THEN 2 ELSE IF IsLead3(b) THEN 3 ELSE IF IsLead4(b) THEN 4 ELSE 0

\* allowed range of the second byte, by lead byte (Table 3-7)
SecondOK(lead, b) ==
  CASE lead = 224 -> InR(b, 160, 191)
    [] lead = 237 -> InR(b, 128, 159)
    [] lead = 240 -> InR(b, 144, 191)
    [] lead = 244 -> InR(b, 128, 143)
    [] OTHER      -> InR(b, 128, 191)
\* may b follow the (non-empty, incomplete) prefix q ?
ContOK(q, b) == IF Len(q) = 1 THEN SecondOK(q[1], b) ELSE InR(b, 128, 191)

CodePoint(q) ==
  CASE Len(q) = 1 -> q[1]
    [] Len(q) = 2 -> (q[1] - 192) * 64 + (q[2] - 128)
    [] Len(q) = 3 -> (q[1] - 224) * 4096 + (q[2] - 128) * 64 + (q[3] - 128)
    [] Len(q) = 4 -> (q[1] - 240) * 262144 + (q[2] - 128) * 4096 + (q[3] - 128) * 64 + (q[4] - 128)

-----------------------------------------------------------------------------
(* incremental automaton: d = [out, pend]                                     *)
Start(d, b) ==     \* b read with nothing pending
  IF b < 128 THEN [d EXCEPT !.out = Append(@, b)]
  ELSE IF IsLead(b) THEN [d EXCEPT !.pend = <<b>>]
  ELSE [d EXCEPT !.out = Append(@, REPL)]
DecStep(d, b) ==
  IF d.pend = <<>> THEN Start(d, b)
  ELSE IF ContOK(d.pend, b) THEN
     LET q == Append(d.pend, b) IN
     IF Len(q) = SeqLen(q[1]) THEN [out |-> Append(d.out, CodePoint(q)), pend |-> <<>>]
     ELSE [d EXCEPT !.pend = q]
  ELSE \* the pending maximal subpart is ill-formed: one U+FFFD, then b starts afresh
     Start([out |-> Append(d.out, REPL), pend |-> <<>>], b)

\* one feed() call in UTF-8 mode: the characters handed on, and the tail kept
DecodeCall(pend, chunk) == FoldLeft(DecStep, [out |-> <<>>, pend |-> pend], chunk)
\* end of stream: an incomplete tail is ill-formed
Flush(pend) == IF pend = <<>> THEN <<>> ELSE <<REPL>>
\* 8-bit mode: byte = code point
Decode8(chunk) == chunk

-----------------------------------------------------------------------------
(* position-based reference                                                   *)
\* is bs[i..i+n-1] a well-formed sequence of length n = SeqLen(bs[i]) ?
WellFormedAt(bs, i) ==
  LET n == SeqLen(bs[i]) IN
  /\ n >= 1 /\ i + n - 1 <= Len(bs)
  /\ (n >= 2 => SecondOK(bs[i], bs[i + 1]))
  /\ \A k \in 2..(n - 1) : InR(bs[i + k], 128, 191)
\* length of the maximal subpart of an ill-formed subsequence starting at i:
\* the longest initial run that is a prefix of some well-formed sequence, at least 1
SubpartLen(bs, i) ==
  IF ~IsLead(bs[i]) THEN 1
  ELSE IF i + 1 > Len(bs) \/ ~SecondOK(bs[i], bs[i + 1]) THEN 1
  ELSE IF SeqLen(bs[i]) = 2 THEN 2     \* (not reached for ill-formed input)
  ELSE IF i + 2 > Len(bs) \/ ~InR(bs[i + 2], 128, 191) THEN 2
  ELSE 3
RECURSIVE WholeFrom(_, _)
WholeFrom(bs, i) ==
  IF i > Len(bs) THEN <<>>
  ELSE IF WellFormedAt(bs, i)
    THEN <<CodePoint(SubSeq(bs, i, i + SeqLen(bs[i]) - 1))>> \o WholeFrom(bs, i + SeqLen(bs[i]))
    ELSE <<REPL>> \o WholeFrom(bs, i + SubpartLen(bs, i))
DecodeWhole(bs) == WholeFrom(bs, 1)
=============================================================================
