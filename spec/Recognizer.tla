------------------------------ MODULE Recognizer ------------------------------
(* The escape-sequence recogniser (property C03, C19): one transition per     *)
(* input character, zero or more listener events per transition.  One state  *)
(* per `yield` point of the implementation's coroutine.                      *)
(*                                                                           *)
(* r = [st, params, cur, priv, which, code, payload]                         *)
(*   st      "ground" | "esc" | "esc#" | "esc%" | "escp" | "csi" | "csi$"     *)
(*           | "osc" | "oscp" | "oscesc"                                      *)
(*   params  parameters collected so far;  cur  -1 (no digit yet) or a number *)
(*           with sticky saturation at 9999;  priv  `?` seen                  *)
(*   which   40 `(` or 41 `)` while a designator final is awaited            *)
(*   code    the OSC code character;  payload  OSC text collected so far      *)
(* Events are [op, p, s, pr] in the vocabulary of ScreenOps.                  *)
EXTENDS Util

ESC == 27   CSIC == 155   OSCC == 157   STC == 156
BELc == 7   CANc == 24    SUBc == 26

Ground == [st |-> "ground", params |-> <<>>, cur |-> -1, priv |-> FALSE, which |-> 0, code |-> 0, payload |-> <<>>]
InState(name) == [Ground EXCEPT !.st = name]

E(op, p, s, pr) == [op |-> op, p |-> p, s |-> s, pr |-> pr]
E0(op) == E(op, <<>>, <<>>, FALSE)

\* C0 controls executed immediately (also inside CSI, except SO/SI)
BasicOp(ch) ==
  CASE ch = 7 -> "bel" [] ch = 8 -> "bs" [] ch = 9 -> "ht" [] ch \in {10, 11, 12} -> "lf" [] ch = 13 -> "cr"
    [] ch = 14 -> "so" [] ch = 15 -> "si"
AllowedInCsi == {7, 8, 9, 10, 11, 12, 13}
Basic == AllowedInCsi \cup {14, 15}

\* ESC-final dispatch
EscOp(ch) ==
  CASE ch = 99 -> <<E0("ris")>>    \* c
    [] ch = 68 -> <<E0("ind")>>    \* D
    [] ch = 69 -> <<E0("lf")>>     \* E  (NEL)
    [] ch = 77 -> <<E0("ri")>>     \* M
    [] ch = 72 -> <<E0("hts")>>    \* H
    [] ch = 55 -> <<E0("decsc")>>  \* 7
    [] ch = 56 -> <<E0("decrc")>>  \* 8
    [] OTHER   -> <<>>

Nth(ps, i) == IF i <= Len(ps) THEN ps[i] ELSE -1
\* CSI-final dispatch; ps is never empty (a parameter is pushed at the final)
CsiOp(fin, ps, priv) ==
  LET one(op) == <<E(op, <<ps[1]>>, <<>>, FALSE)>> IN
  CASE fin = 64  -> one("ich")      \* @
    [] fin = 65  -> one("cuu")      \* A
    [] fin = 66  -> one("cud")      \* B
    [] fin = 67  -> one("cuf")      \* C
    [] fin = 68  -> one("cub")      \* D
    [] fin = 69  -> one("cnl")      \* E
    [] fin = 70  -> one("cpl")      \* F
    [] fin = 71  -> one("cha")      \* G
    [] fin = 72  -> <<E("cup", <<ps[1], Nth(ps, 2)>>, <<>>, FALSE)>>      \* H  (row, column)
    [] fin = 74  -> one("ed")       \* J
    [] fin = 75  -> one("el")       \* K
    [] fin = 76  -> one("il")       \* L
    [] fin = 77  -> one("dl")       \* M
    [] fin = 80  -> one("dch")      \* P
    [] fin = 88  -> one("ech")      \* X
    [] fin = 97  -> one("cuf")      \* a  (HPR)
    [] fin = 99  -> one("da")       \* c
    [] fin = 100 -> one("vpa")      \* d
    [] fin = 101 -> one("cud")      \* e  (VPR)
    [] fin = 102 -> <<E("cup", <<ps[1], Nth(ps, 2)>>, <<>>, FALSE)>>      \* f  (HVP)
    [] fin = 103 -> one("tbc")      \* g
    [] fin = 104 -> <<E("sm", ps, <<>>, priv)>>                            \* h
    [] fin = 108 -> <<E("rm", ps, <<>>, priv)>>                            \* l
    [] fin = 109 -> <<E("sgr", ps, <<>>, FALSE)>>                          \* m
    [] fin = 114 -> <<E("decstbm", <<ps[1], Nth(ps, 2)>>, <<>>, FALSE)>>   \* r  (top, bottom)
    [] OTHER     -> <<>>

\* OSC: the text after the first character of the payload (the `;`)
OscOp(code, payload) ==
  LET text == IF payload = <<>> THEN <<>> ELSE Tail(payload) IN
  (IF code \in {48, 49} THEN <<E("icon", <<>>, text, FALSE)>> ELSE <<>>) \o
  (IF code \in {48, 50} THEN <<E("title", <<>>, text, FALSE)>> ELSE <<>>)

R(r, evs) == [r |-> r, evs |-> evs]
IsDigit(ch) == ch >= 48 /\ ch <= 57

RStep(r, ch, utf8) ==
  CASE r.st = "ground" ->
         IF ch = ESC THEN R(InState("esc"), <<>>)
         ELSE IF ch = CSIC THEN R(InState("csi"), <<>>)
         ELSE IF ch = OSCC THEN R(InState("osc"), <<>>)
         ELSE IF ch \in {14, 15} THEN R(Ground, IF utf8 THEN <<>> ELSE <<E0(BasicOp(ch))>>)
         ELSE IF ch \in AllowedInCsi THEN R(Ground, <<E0(BasicOp(ch))>>)
         ELSE R(Ground, <<E("draw", <<>>, <<ch>>, FALSE)>>)
    [] r.st = "esc" ->
         IF ch = 91 THEN R(InState("csi"), <<>>)            \* [
         ELSE IF ch = 93 THEN R(InState("osc"), <<>>)       \* ]
         ELSE IF ch = 35 THEN R(InState("esc#"), <<>>)      \* #
         ELSE IF ch = 37 THEN R(InState("esc%"), <<>>)      \* %
         ELSE IF ch \in {40, 41} THEN R([InState("escp") EXCEPT !.which = ch], <<>>)
         ELSE R(Ground, EscOp(ch))
    [] r.st = "esc#" -> R(Ground, IF ch = 56 THEN <<E0("decaln")>> ELSE <<>>)
    [] r.st = "esc%" -> R(Ground, <<>>)                      \* select-other-charset argument: consumed
    [] r.st = "escp" -> R(Ground, IF utf8 THEN <<>> ELSE <<E("charset", <<r.which>>, <<ch>>, FALSE)>>)
    [] r.st = "csi" ->
         IF ch = 63 THEN R([r EXCEPT !.priv = TRUE], <<>>)                          \* ?
         ELSE IF ch \in AllowedInCsi THEN R(r, <<E0(BasicOp(ch))>>)
         ELSE IF ch \in {32, 62} THEN R(r, <<>>)                                     \* SP, >
         ELSE IF ch \in {CANc, SUBc} THEN R(Ground, <<E("draw", <<>>, <<ch>>, FALSE)>>)   \* abort
         ELSE IF IsDigit(ch) THEN R([r EXCEPT !.cur = Min2(9999, N0(r.cur) * 10 + (ch - 48))], <<>>)
         ELSE IF ch = 36 THEN R(InState("csi$"), <<>>)                               \* $
         ELSE LET ps == Append(r.params, N0(r.cur)) IN
              IF ch = 59 THEN R([r EXCEPT !.params = ps, !.cur = -1], <<>>)          \* ;
              ELSE R(Ground, CsiOp(ch, ps, r.priv))
    [] r.st = "csi$" -> R(Ground, <<>>)
    [] r.st = "osc" ->
         IF ch \in {82, 112} THEN R(Ground, <<>>)            \* R, p: palette reset, not implemented
         ELSE R([InState("oscp") EXCEPT !.code = ch], <<>>)
    [] r.st = "oscp" ->
         IF ch = ESC THEN R([r EXCEPT !.st = "oscesc"], <<>>)
         ELSE IF ch \in {BELc, STC} THEN R(Ground, OscOp(r.code, r.payload))
         ELSE R([r EXCEPT !.payload = Append(@, ch)], <<>>)
    [] r.st = "oscesc" ->
         IF ch = 92 THEN R(Ground, OscOp(r.code, r.payload))                         \* ESC \
         ELSE R([r EXCEPT !.st = "oscp", !.payload = @ \o <<ESC, ch>>], <<>>)

\* fold over a string: [r, evs]
RFeed(r, chars, utf8) ==
  FoldLeft(LAMBDA acc, ch : LET n == RStep(acc.r, ch, utf8) IN R(n.r, acc.evs \o n.evs),
           R(r, <<>>), chars)

-----------------------------------------------------------------------------
(* normal form of an event list for comparison (DESIGN 5.3): text made only  *)
(* of C0/DEL characters is dropped, adjacent text events are merged, the      *)
(* `private` argument of ED/EL/DA is not compared.                            *)
NonPrinting(cp) == cp < 32 \/ cp = 127
Printing(s) == SelectSeq(s, LAMBDA cp : ~NonPrinting(cp))
NormEv(e) == IF e.op \in {"ed", "el", "da"} THEN [e EXCEPT !.pr = FALSE] ELSE e
RECURSIVE NormFrom(_, _, _)
NormFrom(evs, i, acc) ==
  IF i > Len(evs) THEN acc
  ELSE LET e == evs[i] IN
       IF e.op = "draw" THEN
          LET t == Printing(e.s) IN
          IF t = <<>> THEN NormFrom(evs, i + 1, acc)
          ELSE IF acc # <<>> /\ acc[Len(acc)].op = "draw"
            THEN NormFrom(evs, i + 1, [acc EXCEPT ![Len(acc)].s = @ \o t])
            ELSE NormFrom(evs, i + 1, Append(acc, E("draw", <<>>, t, FALSE)))
       ELSE NormFrom(evs, i + 1, Append(acc, NormEv(e)))
NormEvents(evs) == NormFrom(evs, 1, <<>>)
=============================================================================
