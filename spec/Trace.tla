-------------------------------- MODULE Trace --------------------------------
(* Trace validator (implementation -> specification).                        *)
(*                                                                           *)
(* Reads the ndjson trace named by the environment variable TRACE; every     *)
(* line was produced by the Rust harness from the real code.  One line is    *)
(* consumed per step.  The specification state is RESYNCHRONISED to the      *)
(* implementation's logged post-state after every line, so one deviation     *)
(* yields one report and the rest of the trace is still examined.  Which     *)
(* properties are asserted is selected by environment variables P_Cxx=1.      *)
(* Mismatches are printed as machine-readable MISMATCH lines; acceptance is  *)
(* "all lines consumed" (POSTCONDITION) and "no MISMATCH line".              *)
EXTENDS Props, Recognizer, Utf8, Json, IOUtils, TLCExt

Rec == ndJsonDeserialize(IOEnv.TRACE)
On(id) == IOEnv["P_" \o id] = "1"

VARIABLES l,      \* number of trace lines consumed
          st,     \* screen state after line l (the implementation's, normalised); NoScreen if none
          need,   \* C17 history: rows whose appearance changed since the last ClearDirty
          cnt,    \* per-property counters of judged lines (evidence)
          rs,     \* recogniser / decoder state carried by the specification (not observable in the code)
          grp     \* first end-of-history state of the current comparison group (C02, C10)
vars == <<l, st, need, cnt, rs, grp>>

NoScreen == [L |-> 0]
HasScreen(s) == s.L > 0

\* the logged projection -> state record (sets from lists, grid delta applied)
NormState(p, prev) ==
  LET grid == IF p.full THEN p.g
              ELSE [r \in 1..p.L |->
                      LET hit == { i \in 1..Len(p.gd) : p.gd[i][1] = r - 1 } IN
                      IF hit # {} THEN p.gd[CHOOSE i \in hit : TRUE][2] ELSE prev.g[r]]
  IN [L |-> p.L, C |-> p.C, g |-> grid, x |-> p.x, y |-> p.y, attr |-> p.attr, hid |-> p.hid,
      modes |-> SeqToSet(p.modes), mar |-> p.mar, tabs |-> SeqToSet(p.tabs),
      title |-> p.title, icon |-> p.icon, cs |-> p.cs, g0 |-> p.g0, g1 |-> p.g1,
      saves |-> p.saves, savedcols |-> p.savedcols, dirty |-> SeqToSet(p.dirty), sc |-> 0]

PropIds == {"C04","C05","C06","C07","C08","C10","C12","C13","C14","C15","C16","C18","C19","C20","ALL"}
CntKeys == PropIds \cup {"wire_judged", "wire_desync", "vectors", "setup_mismatch", "C01","C02","C03","C09","C11","C17","lines","ops","feeds","ends","skipped_illformed","panics"}
Inc(c, keys) == [k \in DOMAIN c |-> IF k \in keys THEN c[k] + 1 ELSE c[k]]

Report(kind, id, line, r, bad, extra) ==
  PrintT(<<"MISMATCH", ToJson([kind |-> kind, prop |-> id, line |-> line, op |-> r.ev.op, p |-> r.ev.p,
                               pr |-> r.ev.pr, src |-> r.src, bad |-> SetToSeq(bad), info |-> extra])>>)

\* compact expected-vs-observed description for a report
Describe(e, post) ==
  [ex |-> e.x, ey |-> e.y, ox |-> post.x, oy |-> post.y, rows |-> SetToSeq(DiffRows(e, post)),
   emar |-> e.mar, omar |-> post.mar, eL |-> e.L, eC |-> e.C, oL |-> post.L, oC |-> post.C]

JudgeOp(r, line) ==
  LET post == NormState(r.post, st)
      ev   == r.ev
      disp == IF ev.op = "display" THEN r.disp ELSE <<>>
      preOK == HasScreen(st) /\ WellFormedCore(st)
      postOK == Shape(post)
      judged == IF preOK /\ postOK /\ ~r.panic /\ ~rs.skip
                  THEN { id \in PropIds : On(id) /\ InScope(id, st, ev) } ELSE {}
      need1 == IF preOK /\ postOK THEN NeedNext(need, st, ev, post)
               ELSE IF postOK THEN need \cap RowsOf(post) ELSE {}
  IN
  /\ st' = post
  /\ need' = need1
  \* C14 history variable: the stack of saved cursor states as the SPECIFICATION knows it (pushed at
  \* DECSC from the state at that moment, popped at DECRC, untouched by everything else) - an
  \* operation that tampers with the saved states in between is then visible at the restore
  /\ rs' = [rs EXCEPT !.hs = IF ~preOK THEN post.saves
                             ELSE IF ev.op = "decsc" THEN Append(rs.hs, Savepoint(st))
                             ELSE IF ev.op = "decrc" THEN (IF rs.hs = <<>> THEN <<>> ELSE SubSeq(rs.hs, 1, Len(rs.hs) - 1))
                             ELSE rs.hs,
  \* C18 history variable: the tab stops as the SPECIFICATION knows them (edited by HTS / TBC / RIS only) -
  \* an operation that tampers with them in between (a resize that prunes stops) is visible at the next HT
                      !.tabs = IF ~preOK THEN post.tabs ELSE Apply([st EXCEPT !.tabs = rs.tabs], ev).tabs]
  /\ cnt' = Inc(cnt, judged \cup {"lines", "ops"}
                     \cup (IF On("C09") THEN {"C09"} ELSE {}) \cup (IF On("C01") THEN {"C01"} ELSE {})
                     \cup (IF On("C17") /\ preOK /\ postOK THEN {"C17"} ELSE {})
                     \cup (IF ~preOK THEN {"skipped_illformed"} ELSE {})
                     \cup (IF r.panic THEN {"panics"} ELSE {}))
  \* C01: the call returned normally
  /\ (On("C01") /\ r.panic) => Report("panic", "C01", line, r, {"panic"}, [msg |-> r.msg])
  \* C09: the state after every operation is well-formed; display() returns L rows
  \* (a clause is reported when it becomes false, not again while it stays false; colours are
  \* checked on the rows this event changed)
  /\ LET changed == IF r.post.full THEN 1..post.L ELSE { r.post.gd[i][1] + 1 : i \in 1..Len(r.post.gd) }
         newbad == (WellFormedBadCheap(post) \ (IF HasScreen(st) /\ Shape(st) THEN WellFormedBadCheap(st) ELSE {}))
                   \cup (IF ColoursOKRows(post, r.post.cols, changed) THEN {} ELSE {"colour"})
     IN (On("C09") /\ ~r.panic /\ postOK /\ newbad # {})
        => Report("illformed", "C09", line, r, newbad,
                  [x |-> post.x, y |-> post.y, L |-> post.L, C |-> post.C, mar |-> post.mar,
                   dirty |-> SetToSeq(post.dirty)])
  /\ (On("C09") /\ ~r.panic /\ ev.op = "display" /\ Len(disp) # post.L)
        => Report("illformed", "C09", line, r, {"display-rows"}, [rows |-> Len(disp), L |-> post.L])
  \* the step predicates of the selected properties
  /\ \A id \in judged :
        LET pre0 == IF id = "C14" /\ ev.op = "decrc" THEN [st EXCEPT !.saves = rs.hs]
                    ELSE IF id = "C18" THEN [st EXCEPT !.tabs = rs.tabs] ELSE st
            bad == Bad(id, pre0, ev, post, disp) IN
        bad # {} => Report("mismatch", id, line, r, bad, Describe(Apply(pre0, ev), post))
  \* C17
  /\ (On("C17") /\ preOK /\ postOK /\ ~r.panic /\ Bad_C17(need, st, need1, post) # {})
        => Report("mismatch", "C17", line, r, Bad_C17(need, st, need1, post),
                  [need |-> SetToSeq(need1), dirty |-> SetToSeq(post.dirty), L |-> post.L])

-----------------------------------------------------------------------------
(* feed lines: what the listener received during one feed() call             *)
RsInit(utf8) == [rec |-> Ground, pend |-> <<>>, utf8 |-> utf8, start |-> TRUE, flushAlt |-> FALSE, skip |-> FALSE, desync |-> FALSE, hs |-> <<>>, tabs |-> {}]
PlainEv(e) == [op |-> e.op, p |-> e.p, s |-> e.s, pr |-> e.pr]
TextOf(evs) == FoldLeft(LAMBDA acc, e : IF e.op = "draw" THEN acc \o e.s ELSE acc, <<>>, evs)
Only(evs, ops) == SelectSeq(evs, LAMBDA e : e.op \in ops)
InOsc(rec) == rec.st \in {"osc", "oscp", "oscesc"}

ReportFeed(id, line, r, exp, obs) ==
  PrintT(<<"MISMATCH", ToJson([kind |-> "events", prop |-> id, line |-> line, op |-> r.ev.op, p |-> <<>>,
                               pr |-> FALSE, src |-> r.ev.port, bad |-> <<"events">>,
                               info |-> [exp |-> exp, obs |-> obs]])>>)

JudgeFeed(r, line) ==
  LET bytes  == r.ev.port = "bytes"
      dec    == IF bytes /\ rs.utf8 THEN DecodeCall(rs.pend, r.ev.wb)
                ELSE [out |-> IF bytes THEN r.ev.wb ELSE r.ev.ws, pend |-> <<>>]
      \* freedom points of C11: a byte-order mark at the very start of the stream may be
      \* dropped; a tail pending at a mode switch may have been flushed as one U+FFFD
      bom    == bytes /\ rs.utf8 /\ rs.start /\ dec.out # <<>> /\ dec.out[1] = 65279
      rf     == RFeed(rs.rec, dec.out, rs.utf8)
      rfNoBom == RFeed(rs.rec, Tail(dec.out), rs.utf8)
      rfFlush == RFeed(rs.rec, <<REPL>> \o dec.out, rs.utf8)
      obs    == NormEvents([i \in 1..Len(r.out) |-> PlainEv(r.out[i])])
      cands  == {NormEvents(rf.evs)} \cup (IF bom THEN {NormEvents(rfNoBom.evs)} ELSE {})
                \cup (IF rs.flushAlt THEN {NormEvents(rfFlush.evs)} ELSE {})
      exp    == NormEvents(rf.evs)
      oscLine == InOsc(rs.rec) \/ InOsc(rf.r) \/ Only(exp, {"title", "icon"}) # <<>> \/ Only(obs, {"title", "icon"}) # <<>>
      \* the recogniser state is carried by the specification and cannot be resynchronised;
      \* after the first deviating feed of a history the later feeds are not judged
      live   == ~rs.desync /\ ~r.panic
      \* per-property reading of the wire: the operations of the property's scope arrive
      \* at the listener exactly as the documented grammar says (operation, parameters, order)
      wireBad(id) == Only(obs, WireOps(id)) \notin { Only(c, WireOps(id)) : c \in cands }
  IN
  /\ rs' = [rs EXCEPT !.rec = rf.r, !.pend = dec.pend, !.flushAlt = FALSE,
                       !.start = rs.start /\ dec.out = <<>>,
                       !.desync = rs.desync \/ r.panic \/ obs \notin cands]
  /\ UNCHANGED <<st, need>>
  /\ cnt' = Inc(cnt, {"lines", "feeds"} \cup (IF r.panic THEN {"panics"} ELSE {})
                     \cup (IF On("C01") THEN {"C01"} ELSE {})
                     \cup (IF On("C03") /\ ~bytes THEN {"C03"} ELSE {})
                     \cup (IF On("C11") /\ bytes THEN {"C11"} ELSE {})
                     \cup (IF On("C19") /\ oscLine THEN {"C19"} ELSE {})
                     \cup (IF live THEN {"wire_judged"} ELSE {"wire_desync"}))
  /\ (On("C01") /\ r.panic) =>
        PrintT(<<"MISMATCH", ToJson([kind |-> "panic", prop |-> "C01", line |-> line, op |-> r.ev.op, p |-> <<>>,
                                     pr |-> FALSE, src |-> r.ev.port, bad |-> <<"panic">>, info |-> [msg |-> r.msg]])>>)
  \* C01: not wedged - after the universal reset word (CAN BEL BEL) the probe character is delivered,
  \* whatever happened before (the specification is in its ground state then, desynchronised or not)
  /\ (On("C01") /\ ~r.panic /\ r.ev.p = <<1>> /\ TextOf(obs) # TextOf(exp))
        => PrintT(<<"MISMATCH", ToJson([kind |-> "wedged", prop |-> "C01", line |-> line, op |-> r.ev.op, p |-> <<>>,
                                        pr |-> FALSE, src |-> r.ev.port, bad |-> <<"probe">>,
                                        info |-> [exp |-> TextOf(exp), obs |-> TextOf(obs)]])>>)
  \* C03: the ordered listener events are those of the documented grammar
  /\ (On("C03") /\ live /\ ~bytes /\ obs \notin cands) => ReportFeed("C03", line, r, exp, obs)
  \* C11: the text delivered is the streaming decoding of the bytes
  /\ (On("C11") /\ live /\ bytes /\ TextOf(obs) \notin { TextOf(c) : c \in cands })
        => ReportFeed("C11", line, r, TextOf(exp), TextOf(obs))
  \* C19: title / icon events carry exactly the payload
  /\ (On("C19") /\ live /\ oscLine /\ obs \notin cands) => ReportFeed("C19", line, r, exp, obs)
  \* the screen properties read through the wire
  /\ \A id \in WirePropIds :
        (On(id) /\ live /\ wireBad(id)) => ReportFeed(id, line, r, Only(exp, WireOps(id)), Only(obs, WireOps(id)))

\* end of a history: histories of one comparison group (same sid) must end in the same state
JudgeEnd(r, line) ==
  LET post == NormState(r.post, NoScreen)
      have == grp.sid = r.sid /\ r.sid # ""
      bad  == IF have /\ ~r.dead /\ ~grp.dead /\ r.scr THEN DiffFields(grp.st, post, AllFields) ELSE {}
  IN
  /\ grp' = IF have \/ r.sid = "" THEN grp ELSE [sid |-> r.sid, st |-> IF r.scr THEN post ELSE NoScreen, dead |-> r.dead, id |-> r.id]
  /\ UNCHANGED <<st, need, rs>>
  /\ cnt' = Inc(cnt, {"lines", "ends"} \cup (IF have /\ r.cmp # "" /\ On(r.cmp) THEN {r.cmp} ELSE {}))
  /\ (have /\ r.cmp # "" /\ On(r.cmp) /\ bad # {}) =>
        PrintT(<<"MISMATCH", ToJson([kind |-> "diverge", prop |-> r.cmp, line |-> line, op |-> "end", p |-> <<>>,
                                     pr |-> FALSE, src |-> r.id, bad |-> SetToSeq(bad),
                                     info |-> [first |-> grp.id, rows |-> SetToSeq(DiffRows(grp.st, post)),
                                               ax |-> grp.st.x, ay |-> grp.st.y, bx |-> post.x, by |-> post.y]])>>)

Init ==
  /\ l = 0
  /\ st = NoScreen
  /\ need = {}
  /\ cnt = [k \in CntKeys |-> 0]
  /\ rs = RsInit(TRUE)
  /\ grp = [sid |-> "", st |-> NoScreen, dead |-> FALSE, id |-> ""]

Step ==
  /\ l < Len(Rec)
  /\ l' = l + 1
  /\ LET r == Rec[l + 1] IN
     CASE r.k = "new" ->
            /\ st' = IF r.scr THEN NormState(r.post, NoScreen) ELSE NoScreen
            /\ need' = {}
            /\ rs' = [RsInit(r.utf8) EXCEPT !.hs = IF r.scr THEN r.post.saves ELSE <<>>,
                                            !.tabs = IF r.scr THEN SeqToSet(r.post.tabs) ELSE {}]
            /\ UNCHANGED grp
            /\ cnt' = Inc(cnt, {"lines"})
            /\ (On("C09") /\ r.scr /\ ~WellFormed(NormState(r.post, NoScreen), r.post.cols))
                 => PrintT(<<"MISMATCH", ToJson([kind |-> "illformed", prop |-> "C09", line |-> l + 1,
                                                 op |-> "new", p |-> <<r.L, r.C>>, pr |-> FALSE, src |-> "api",
                                                 bad |-> <<"new">>, info |-> <<>>])>>)
            \* the power-on state: tab stops every 8th column (C18), G0 Latin-1 / G1 DEC graphics / SI (C20)
            /\ LET p0 == NormState(r.post, NoScreen)
                   f0 == Fresh(r.C, r.L)
                   rep(id, bad) == PrintT(<<"MISMATCH", ToJson([kind |-> "mismatch", prop |-> id, line |-> l + 1, op |-> "new",
                                                                p |-> <<r.L, r.C>>, pr |-> FALSE, src |-> "api",
                                                                bad |-> SetToSeq(bad), info |-> [tabs |-> SetToSeq(p0.tabs)]])>>)
               IN /\ (On("C18") /\ r.scr /\ Shape(p0) /\ p0.tabs # f0.tabs) => rep("C18", {"tabs"})
                  /\ (On("C20") /\ r.scr /\ Shape(p0) /\ DiffFields(p0, f0, {"cs", "g0", "g1"}) # {})
                        => rep("C20", DiffFields(p0, f0, {"cs", "g0", "g1"}))
                  /\ (On("ALL") /\ r.scr /\ Shape(p0) /\ DiffFields(p0, f0, AllFields) # {})
                        => rep("ALL", DiffFields(p0, f0, AllFields))
       [] r.k = "op" -> JudgeOp(r, l + 1) /\ UNCHANGED grp
       [] r.k = "feed" -> JudgeFeed(r, l + 1) /\ UNCHANGED grp
       [] r.k = "end" -> JudgeEnd(r, l + 1)
       [] r.k = "sync" ->
            \* end of a vector's setup history: the code must have reached the state the
            \* specification reaches on the same history, otherwise the vector is skipped
            LET post == NormState(r.post, NoScreen)
                want == FoldLeft(Apply, Fresh(r.C, r.L), r.setup)
                same == r.panics = 0 /\ Shape(post) /\ DiffFields(want, post, NoDirty) = {} IN
            /\ st' = post
            /\ need' = {}
            /\ rs' = [rs EXCEPT !.skip = ~same, !.hs = want.saves, !.tabs = want.tabs]
            /\ UNCHANGED grp
            /\ cnt' = Inc(cnt, {"lines", "vectors"} \cup (IF same THEN {} ELSE {"setup_mismatch"}))
            /\ (~same /\ On("ALL")) => PrintT(<<"INFO", ToJson([line |-> l + 1, panics |-> r.panics,
                                                 diff |-> IF Shape(post) THEN SetToSeq(DiffFields(want, post, NoDirty)) ELSE <<"shape">>,
                                                 wx |-> want.x, wy |-> want.y, px |-> post.x, py |-> post.y])>>)
       [] r.k = "utf8" ->
            \* mode switch: a pending incomplete sequence is discarded (or flushed: freedom point)
            \* (selecting UTF-8 while already in UTF-8 mode changes nothing)
            /\ rs' = IF r.ev.p[1] = 1 THEN [rs EXCEPT !.utf8 = TRUE]
                     ELSE [rs EXCEPT !.utf8 = FALSE, !.pend = <<>>, !.flushAlt = (rs.pend # <<>>) \/ rs.flushAlt]
            /\ UNCHANGED <<st, need, grp>>
            /\ cnt' = Inc(cnt, {"lines"})
       [] OTHER -> /\ UNCHANGED <<st, need, rs, grp>>
                   /\ cnt' = Inc(cnt, {"lines"})
  /\ (l + 1 = Len(Rec)) => PrintT(<<"SUMMARY", ToJson(cnt')>>)

Next == Step
Spec == Init /\ [][Next]_vars

\* every line of the trace was consumed
Accepted ==
  IF TLCGet("stats").diameter - 1 = Len(Rec) THEN TRUE
  ELSE PrintT(<<"STUCK", TLCGet("stats").diameter - 1, Len(Rec)>>) /\ FALSE
=============================================================================
