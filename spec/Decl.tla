-------------------------------- MODULE Decl --------------------------------
(* Declarative readings of the property statements, written independently of *)
(* the operational operators of ScreenOps (closed forms, cell-wise and       *)
(* row-wise characterisations).  The bounded models (MC.tla) check that the  *)
(* operational specification satisfies them: Spec |= P.                       *)
EXTENDS Props

Frame(pre, post, changed) == Agree(pre, post, AllFields \ (changed \cup {"dirty"}))
RegTop(s) == IF s.mar = <<>> THEN 0 ELSE s.mar[1]
RegBot(s) == IF s.mar = <<>> THEN s.L - 1 ELSE s.mar[2]
OriginOn(s) == s.mar # <<>> /\ DECOM \in s.modes
LastCol(s) == s.C - 1
DefaultCell(s) == [d |-> <<32>>, fg |-> "default", bg |-> "default", a |-> IF DECSCNM \in s.modes THEN REV ELSE 0]
ErasedCell(s)  == [d |-> <<32>>, fg |-> s.attr.fg, bg |-> s.attr.bg, a |-> s.attr.a]

-----------------------------------------------------------------------------
(* C05: closed forms of cursor movement                                      *)
Decl_C05(pre, ev, post) ==
  LET n == N1(P(ev, 1))
      xin == Min2(pre.x, LastCol(pre))        \* pending wrap counts as the last column for leftward motion
  IN
  /\ Frame(pre, post, {"x", "y"})
  /\ CASE ev.op = "cuu" -> post.y = Max2(pre.y - n, RegTop(pre)) /\ post.x = pre.x
       [] ev.op = "cud" -> post.y = Min2(pre.y + n, RegBot(pre)) /\ post.x = pre.x
       [] ev.op = "cuf" -> post.x = Min2(pre.x + n, LastCol(pre)) /\ post.y = pre.y
       [] ev.op = "cub" -> post.x = Max2(xin - n, 0) /\ post.y = pre.y
       [] ev.op = "bs"  -> post.x = Max2(xin - 1, 0) /\ post.y = pre.y
       [] ev.op = "cr"  -> post.x = 0 /\ post.y = pre.y
       [] ev.op = "cnl" -> post.y = Min2(pre.y + n, RegBot(pre)) /\ post.x = 0
       [] ev.op = "cpl" -> post.y = Max2(pre.y - n, RegTop(pre)) /\ post.x = 0
       [] ev.op = "cha" -> post.x = Min2(n - 1, LastCol(pre)) /\ post.y = pre.y
       [] ev.op = "vpa" ->
            /\ post.x = pre.x
            /\ post.y = IF OriginOn(pre) THEN Min2(RegTop(pre) + n - 1, RegBot(pre)) ELSE Min2(n - 1, pre.L - 1)
       [] ev.op = "cup" ->
            LET row == N1(P(ev, 1)) - 1   col == N1(P(ev, 2)) - 1 IN
            IF OriginOn(pre) THEN
               IF RegTop(pre) + row > RegBot(pre) THEN post.x = pre.x /\ post.y = pre.y      \* outside the region: ignored
               ELSE post.y = RegTop(pre) + row /\ post.x = Min2(col, LastCol(pre))
            ELSE post.y = Min2(row, pre.L - 1) /\ post.x = Min2(col, LastCol(pre))

-----------------------------------------------------------------------------
(* C06: scrolling as a statement about rows                                   *)
RowAt(s, r) == s.g[r + 1]
BlankLine(s) == [c \in 1..s.C |-> DefaultCell(s)]
\* region moved up by one: row r shows what row r+1 showed, the bottom row is blank
RegionUp(pre, post) ==
  \A r \in 0..(pre.L - 1) :
     RowAt(post, r) = IF r < RegTop(pre) \/ r > RegBot(pre) THEN RowAt(pre, r)
                      ELSE IF r < RegBot(pre) THEN RowAt(pre, r + 1) ELSE BlankLine(pre)
RegionDown(pre, post) ==
  \A r \in 0..(pre.L - 1) :
     RowAt(post, r) = IF r < RegTop(pre) \/ r > RegBot(pre) THEN RowAt(pre, r)
                      ELSE IF r > RegTop(pre) THEN RowAt(pre, r - 1) ELSE BlankLine(pre)
Decl_C06(pre, ev, post) ==
  CASE ev.op \in {"ind", "lf"} ->
         /\ Frame(pre, post, {"g", "x", "y"})
         /\ post.x = IF ev.op = "lf" /\ LNM \in pre.modes THEN 0 ELSE pre.x
         /\ IF pre.y = RegBot(pre) THEN RegionUp(pre, post) /\ post.y = pre.y
            ELSE post.g = pre.g /\ post.y = Min2(pre.y + 1, RegBot(pre))
    [] ev.op = "ri" ->
         /\ Frame(pre, post, {"g", "y"})
         /\ IF pre.y = RegTop(pre) THEN RegionDown(pre, post) /\ post.y = pre.y
            ELSE post.g = pre.g /\ post.y = Max2(pre.y - 1, RegTop(pre))
    [] ev.op \in {"il", "dl"} ->
         LET inside == RegTop(pre) <= pre.y /\ pre.y <= RegBot(pre)
             k == Min2(N1(P(ev, 1)), RegBot(pre) - pre.y + 1) IN
         IF ~inside THEN Agree(pre, post, AllFields \ {"dirty"})
         ELSE /\ Frame(pre, post, {"g", "x"})
              /\ post.x = 0
              /\ \A r \in 0..(pre.L - 1) :
                   RowAt(post, r) =
                     IF r < pre.y \/ r > RegBot(pre) THEN RowAt(pre, r)
                     ELSE IF ev.op = "dl"
                       THEN (IF r + k <= RegBot(pre) THEN RowAt(pre, r + k) ELSE BlankLine(pre))
                       ELSE (IF r - k >= pre.y THEN RowAt(pre, r - k) ELSE BlankLine(pre))
    [] ev.op = "decstbm" ->
         LET t0 == P(ev, 1)  b0 == P(ev, 2) IN
         IF t0 <= 0 /\ b0 < 0 THEN Frame(pre, post, {"mar"}) /\ post.mar = <<>>     \* `CSI r`
         ELSE LET t == IF t0 < 0 THEN RegTop(pre) ELSE Max2(0, Min2(t0 - 1, pre.L - 1))
                  b == IF b0 < 0 THEN RegBot(pre) ELSE Max2(0, Min2(b0 - 1, pre.L - 1)) IN
              IF b - t >= 1
                THEN /\ Frame(pre, post, {"mar", "x", "y"})
                     /\ post.mar = <<t, b>>
                     /\ post.x = 0 /\ post.y = IF DECOM \in pre.modes THEN t ELSE 0     \* homed
                ELSE Agree(pre, post, AllFields \ {"dirty"})

-----------------------------------------------------------------------------
(* C07: erasure, cell by cell                                                *)
InErase(pre, ev, r, c) ==    \* 0-based row r, column c
  LET how == N0(P(ev, 1))
      cx  == Min2(pre.x, LastCol(pre)) IN
  CASE ev.op = "ech" -> r = pre.y /\ c >= pre.x /\ c < pre.x + N1(P(ev, 1))
    [] ev.op = "el"  -> r = pre.y /\ (CASE how = 0 -> c >= pre.x [] how = 1 -> c <= cx [] how = 2 -> TRUE [] OTHER -> FALSE)
    [] ev.op = "ed"  -> CASE how = 0 -> r > pre.y \/ (r = pre.y /\ c >= pre.x)
                          [] how = 1 -> r < pre.y \/ (r = pre.y /\ c <= cx)
                          [] how \in {2, 3} -> TRUE
                          [] OTHER -> FALSE
Decl_C07(pre, ev, post) ==
  /\ Frame(pre, post, {"g"})
  /\ \A r \in 0..(pre.L - 1), c \in 0..(pre.C - 1) :
       post.g[r + 1][c + 1] = IF InErase(pre, ev, r, c) THEN ErasedCell(pre) ELSE pre.g[r + 1][c + 1]

-----------------------------------------------------------------------------
(* C13: insertion and deletion of characters as a list splice                *)
Decl_C13(pre, ev, post) ==
  LET k == Min2(N1(P(ev, 1)), pre.C - pre.x)
      row == pre.g[pre.y + 1]  new == post.g[pre.y + 1] IN
  /\ Frame(pre, post, {"g"})
  /\ \A r \in 0..(pre.L - 1) : r # pre.y => post.g[r + 1] = pre.g[r + 1]
  /\ \A c \in 0..(pre.C - 1) :
       new[c + 1] =
         IF c < pre.x THEN row[c + 1]
         ELSE IF ev.op = "ich"
           THEN (IF c < pre.x + k THEN DefaultCell(pre) ELSE row[c - k + 1])
           ELSE (IF c + k <= pre.C - 1 THEN row[c + k + 1] ELSE DefaultCell(pre))

-----------------------------------------------------------------------------
(* C16: resize keeps the overlap in place                                    *)
Decl_C16(pre, ev, post) ==
  LET l == IF P(ev, 1) < 0 THEN pre.L ELSE P(ev, 1)
      c == IF P(ev, 2) < 0 THEN pre.C ELSE P(ev, 2)
      drop == Max2(0, pre.L - l) IN          \* surplus rows leave from the top
  IF l = pre.L /\ c = pre.C THEN post = pre
  ELSE /\ post.L = l /\ post.C = c
       /\ \A r \in 0..(l - 1), k \in 0..(c - 1) :
            post.g[r + 1][k + 1] = IF r + drop <= pre.L - 1 /\ k <= pre.C - 1
                                     THEN pre.g[r + drop + 1][k + 1] ELSE DefaultCell(pre)
       /\ post.mar \in {<<>>, <<0, l - 1>>}
       /\ post.dirty = 0..(l - 1)
       /\ 0 <= post.y /\ post.y < l /\ 0 <= post.x /\ post.x <= c
       /\ Agree(pre, post, AllFields \ {"L", "C", "g", "mar", "dirty", "x", "y"})

-----------------------------------------------------------------------------
(* C15: RIS = a new screen of the current size, except the saved-cursor stack *)
Decl_C15(pre, ev, post) ==
  /\ Agree([Fresh(pre.C, pre.L) EXCEPT !.saves = pre.saves], post, AllFields)

-----------------------------------------------------------------------------
(* C18: tab stops                                                            *)
Decl_C18(pre, ev, post) ==
  CASE ev.op = "ht" ->
         /\ Frame(pre, post, {"x"})
         /\ LET right == { t \in pre.tabs : t > pre.x /\ t <= LastCol(pre) } IN
            IF right = {} THEN post.x = LastCol(pre)
            ELSE post.x \in right /\ \A t \in right : post.x <= t
    [] ev.op = "hts" -> Frame(pre, post, {"tabs"}) /\ post.tabs = pre.tabs \cup {pre.x}
    [] ev.op = "tbc" ->
         /\ Frame(pre, post, {"tabs"})
         /\ post.tabs = (CASE N0(P(ev, 1)) = 0 -> pre.tabs \ {pre.x} [] N0(P(ev, 1)) = 3 -> {} [] OTHER -> pre.tabs)
    [] ev.op = "ris" -> post.tabs = { t \in 1..(pre.C - 1) : t % 8 = 0 }      \* "initially and after reset"

-----------------------------------------------------------------------------
(* C08: SGR read attribute by attribute.  Active(ps) = the positions that    *)
(* are interpreted as codes (not consumed as arguments of 38/48).            *)
RECURSIVE ActiveFrom(_, _)
ActiveFrom(ps, i) ==
  IF i > Len(ps) THEN {}
  ELSE IF ps[i] \in {38, 48} THEN
         LET sel == IF i + 1 <= Len(ps) THEN ps[i + 1] ELSE -1
             skip == IF sel = 5 THEN 3 ELSE IF sel = 2 THEN 5 ELSE 2 IN
         {i} \cup ActiveFrom(ps, i + skip)
       ELSE {i} \cup ActiveFrom(ps, i + 1)
\* the last active position whose code is in `codes` (0 if none)
LastOf(ps, codes) ==
  LET hits == { i \in ActiveFrom(ps, 1) : ps[i] \in codes } IN IF hits = {} THEN 0 ELSE SetMax(hits)
BitAfter(pre, ps, bit, on, off) ==
  LET i == LastOf(ps, {0, on, off}) IN
  IF i = 0 THEN HasBit(pre.attr.a, bit)
  ELSE IF ps[i] = on THEN TRUE
  ELSE IF ps[i] = off THEN FALSE
  ELSE bit = REV /\ DECSCNM \in pre.modes          \* 0: reset to the default rendition
\* does the extended-colour form at position i select a colour, and which
ExtColour(ps, i) ==
  LET sel == IF i + 1 <= Len(ps) THEN ps[i + 1] ELSE -1
      v(k) == IF i + k <= Len(ps) THEN ps[i + k] ELSE -1 IN
  IF sel = 5 /\ v(2) >= 0 /\ v(2) <= 255 THEN Palette(v(2))
  ELSE IF sel = 2 /\ v(2) >= 0 /\ v(3) >= 0 /\ v(4) >= 0 /\ v(2) <= 255 /\ v(3) <= 255 /\ v(4) <= 255
    THEN Rgb(v(2), v(3), v(4))
  ELSE "none"
ColourAfter(pre, ps, fg) ==
  LET base == IF fg THEN 30 ELSE 40
      ext  == IF fg THEN 38 ELSE 48
      brt  == IF fg THEN 90 ELSE 100
      effective == { i \in ActiveFrom(ps, 1) :
                       \/ ps[i] = 0 \/ ps[i] \in base..(base + 7) \/ ps[i] = base + 9 \/ ps[i] \in brt..(brt + 7)
                       \/ (ps[i] = ext /\ ExtColour(ps, i) # "none") }
      cur == IF fg THEN pre.attr.fg ELSE pre.attr.bg IN
  IF effective = {} THEN cur
  ELSE LET i == SetMax(effective)  c == ps[i] IN
       IF c = 0 \/ c = base + 9 THEN "default"
       ELSE IF c \in base..(base + 7) THEN ColourNames[c - base + 1]
       ELSE IF c \in brt..(brt + 7) THEN BrightNames[c - brt + 1]
       ELSE ExtColour(ps, i)
Decl_C08(pre, ev, post) ==
  LET ps == IF ev.p = <<>> THEN <<0>> ELSE ev.p IN
  /\ Frame(pre, post, {"attr"})
  /\ post.attr.fg = ColourAfter(pre, ps, TRUE)
  /\ post.attr.bg = ColourAfter(pre, ps, FALSE)
  /\ HasBit(post.attr.a, BOLD)   = BitAfter(pre, ps, BOLD, 1, 22)
  /\ HasBit(post.attr.a, ITAL)   = BitAfter(pre, ps, ITAL, 3, 23)
  /\ HasBit(post.attr.a, UNDER)  = BitAfter(pre, ps, UNDER, 4, 24)
  /\ HasBit(post.attr.a, BLINK)  = BitAfter(pre, ps, BLINK, 5, 25)
  /\ HasBit(post.attr.a, REV)    = BitAfter(pre, ps, REV, 7, 27)
  /\ HasBit(post.attr.a, STRIKE) = BitAfter(pre, ps, STRIKE, 9, 29)
  /\ post.attr.a < 64


-----------------------------------------------------------------------------
(* C04: one drawn character, cell by cell.  ch is the character as stored     *)
(* (after charset translation), w its display width, cm whether it combines.  *)
\* where a width-w (> 0) character lands: row, column, and whether the region scrolled
Landing(pre, w) ==
  IF pre.x < pre.C THEN [y |-> pre.y, x |-> pre.x, scrolled |-> FALSE, wrapped |-> FALSE]
  ELSE IF DECAWM \in pre.modes THEN
     IF pre.y = RegBot(pre) THEN [y |-> pre.y, x |-> 0, scrolled |-> TRUE, wrapped |-> TRUE]
     ELSE [y |-> Min2(pre.y + 1, RegBot(pre)), x |-> 0, scrolled |-> FALSE, wrapped |-> TRUE]
  ELSE [y |-> pre.y, x |-> Max2(pre.C - w, 0), scrolled |-> FALSE, wrapped |-> FALSE]
\* the grid the character is written into (after the optional scroll)
Base(pre, land) ==
  IF land.scrolled
    THEN [r \in 1..pre.L |-> IF r - 1 < RegTop(pre) \/ r - 1 > RegBot(pre) THEN pre.g[r]
                              ELSE IF r - 1 < RegBot(pre) THEN pre.g[r + 1] ELSE BlankLine(pre)]
    ELSE pre.g
Decl_C04_Char(pre, ch, w, cm, post) ==
  IF w = 0 /\ ~cm THEN Agree(pre, post, AllFields \ {"dirty"})
  ELSE IF cm THEN
     \* appended to the cell before the cursor; wrapping first at the pending-wrap column is
     \* allowed (freedom point), and lands on the same cell
     /\ Frame(pre, post, {"g", "x", "y"})
     /\ \/ /\ post.x = pre.x /\ post.y = pre.y          \* no wrap
           /\ IF pre.x > 0 THEN post.g = [pre.g EXCEPT ![pre.y + 1][pre.x].d = @ \o <<ch>>]
              ELSE IF pre.y > 0 THEN post.g = [pre.g EXCEPT ![pre.y][pre.C].d = @ \o <<ch>>]
              ELSE post.g = pre.g
        \/ /\ pre.x = pre.C /\ DECAWM \in pre.modes     \* wrapped first
           /\ LET land == Landing(pre, 1)  base == Base(pre, land) IN
              /\ post.x = 0 /\ post.y = land.y
              /\ IF land.y > 0 THEN post.g = [base EXCEPT ![land.y][pre.C].d = @ \o <<ch>>] ELSE post.g = base
  ELSE
     LET land == Landing(pre, w)
         base == Base(pre, land)
         ins  == IRM \in pre.modes
         k    == Min2(w, pre.C - land.x)                \* cells inserted in insert mode
         row  == base[land.y + 1]
         shifted == IF ins THEN [c \in 1..pre.C |-> IF c - 1 < land.x THEN row[c]
                                                      ELSE IF c - 1 < land.x + k THEN DefaultCell(pre)
                                                      ELSE row[c - k]]
                    ELSE row
         written == [c \in 1..pre.C |->
                       IF c - 1 = land.x THEN [d |-> <<ch>>, fg |-> pre.attr.fg, bg |-> pre.attr.bg, a |-> pre.attr.a]
                       ELSE IF w = 2 /\ c - 1 = land.x + 1 THEN [d |-> <<>>, fg |-> pre.attr.fg, bg |-> pre.attr.bg, a |-> pre.attr.a]
                       ELSE shifted[c]]
     IN /\ Frame(pre, post, {"g", "x", "y"})
        /\ post.y = land.y
        /\ post.x = Min2(land.x + w, pre.C)
        /\ post.g = [base EXCEPT ![land.y + 1] = written]

-----------------------------------------------------------------------------
(* C12: SM / RM with a single mode number                                    *)
EffectModes == {DECCOLM, DECOM, DECSCNM, DECTCEM}
Decl_C12_One(pre, ev, post) ==
  LET set == ev.op = "sm"
      m   == IF ev.pr THEN 32 * ev.p[1] ELSE ev.p[1]
      modes1 == IF set THEN pre.modes \cup {m} ELSE pre.modes \ {m}
      homeY == IF DECOM \in modes1 /\ post.mar # <<>> THEN post.mar[1] ELSE 0
  IN
  /\ post.modes = modes1
  /\ CASE m = DECTCEM -> Frame(pre, post, {"modes", "hid"}) /\ post.hid = ~set
       [] m = DECOM   -> Frame(pre, post, {"modes", "x", "y"}) /\ post.x = 0 /\ post.y = homeY
       [] m = DECSCNM ->
            /\ Frame(pre, post, {"modes", "g", "attr"})
            /\ \A r \in 1..pre.L, c \in 1..pre.C :
                 /\ HasBit(post.g[r][c].a, REV) = set
                 /\ [post.g[r][c] EXCEPT !.a = 0] = [pre.g[r][c] EXCEPT !.a = 0]
                 /\ ClrBit(post.g[r][c].a, REV) = ClrBit(pre.g[r][c].a, REV)
            /\ HasBit(post.attr.a, REV) = set
            /\ ClrBit(post.attr.a, REV) = ClrBit(pre.attr.a, REV) /\ post.attr.fg = pre.attr.fg /\ post.attr.bg = pre.attr.bg
            /\ RowsOf(post) \subseteq post.dirty
       [] m = DECCOLM ->
            LET width == IF set THEN ColmWidth
                         ELSE IF pre.C = ColmWidth /\ pre.savedcols >= 0 THEN pre.savedcols ELSE pre.C
                blank == [d |-> <<32>>, fg |-> pre.attr.fg, bg |-> pre.attr.bg, a |-> pre.attr.a] IN
            /\ Frame(pre, post, {"modes", "g", "x", "y", "C", "mar", "savedcols"})
            /\ post.C = width /\ post.L = pre.L
            /\ \A r \in 1..post.L, c \in 1..post.C : post.g[r][c] = blank          \* erased with the current rendition
            /\ post.x = 0 /\ post.y = homeY
            /\ post.savedcols = IF set THEN pre.C ELSE IF pre.C = ColmWidth THEN -1 ELSE pre.savedcols
            /\ post.mar = IF width = pre.C THEN pre.mar ELSE <<>>
       [] OTHER -> Frame(pre, post, {"modes"})                                       \* recorded, no other effect

-----------------------------------------------------------------------------
(* C14: save / restore                                                       *)
Decl_C14(pre, ev, post) ==
  IF ev.op = "decsc" THEN
     /\ Frame(pre, post, {"saves"})
     /\ Len(post.saves) = Len(pre.saves) + 1
     /\ SubSeq(post.saves, 1, Len(pre.saves)) = pre.saves
     /\ LET sp == post.saves[Len(post.saves)] IN
        /\ sp.x = pre.x /\ sp.y = pre.y /\ sp.attr = pre.attr /\ sp.hid = pre.hid
        /\ sp.cs = pre.cs /\ sp.g0 = pre.g0 /\ sp.g1 = pre.g1
        /\ sp.origin = (DECOM \in pre.modes) /\ sp.wrap = (DECAWM \in pre.modes)
  ELSE IF pre.saves = <<>> THEN
     /\ Frame(pre, post, {"modes", "x", "y"})
     /\ post.modes = pre.modes \ {DECOM}
     /\ post.x = 0 /\ post.y = 0
  ELSE
     LET sp == pre.saves[Len(pre.saves)]
         lo == IF pre.mar # <<>> THEN pre.mar[1] ELSE 0
         hi == IF pre.mar # <<>> THEN pre.mar[2] ELSE pre.L - 1 IN
     /\ Frame(pre, post, {"saves", "modes", "x", "y", "attr", "hid", "cs", "g0", "g1"})
     /\ post.saves = SubSeq(pre.saves, 1, Len(pre.saves) - 1)                         \* LIFO
     /\ post.x = Min2(sp.x, pre.C - 1) /\ post.y = Max2(lo, Min2(sp.y, hi))
     /\ post.attr = sp.attr /\ post.hid = sp.hid /\ post.cs = sp.cs /\ post.g0 = sp.g0 /\ post.g1 = sp.g1
     /\ post.modes = pre.modes \cup (IF sp.origin THEN {DECOM} ELSE {}) \cup (IF sp.wrap THEN {DECAWM} ELSE {})

-----------------------------------------------------------------------------
(* C20: translation state machine                                            *)
Decl_C20(pre, ev, post) ==
  CASE ev.op = "so" -> Frame(pre, post, {"cs"}) /\ post.cs = 1
    [] ev.op = "si" -> Frame(pre, post, {"cs"}) /\ post.cs = 0
    [] ev.op = "charset" ->
         LET code == CodeName(ev.s)  which == P(ev, 1) IN
         IF code \in {"B", "0", "U", "V"} /\ which \in {40, 41}
           THEN /\ Frame(pre, post, IF which = 40 THEN {"g0"} ELSE {"g1"})
                /\ (IF which = 40 THEN post.g0 ELSE post.g1) = code
           ELSE Agree(pre, post, AllFields \ {"dirty"})
    [] ev.op = "draw" ->      \* one code point drawn at a free position: the cell shows the table entry
         LET cp == ev.s[1]
             tab == IF pre.cs = 1 THEN pre.g1 ELSE pre.g0
             out == IF cp > 255 THEN cp ELSE Table(tab)[cp + 1] IN
         (pre.x < pre.C /\ IRM \notin pre.modes /\ W(ev.wm, out) = 1)
            => post.g[pre.y + 1][pre.x + 1].d = <<out>>

-----------------------------------------------------------------------------
(* C17 on the specification itself: starting from a cleared dirty set, every  *)
(* changed row is marked, screen-wide changes mark every row, nothing stale   *)
Decl_C17(pre, ev, post) ==
  LET p0 == [pre EXCEPT !.dirty = {}, !.sc = 0]
      e  == Apply(p0, ev) IN
  /\ Changed(p0, e) \subseteq e.dirty
  /\ ScreenWide(p0, ev) => RowsOf(e) \subseteq e.dirty
  /\ e.dirty \subseteq RowsOf(e)

-----------------------------------------------------------------------------
(* C10: a second, column-indexed definition of the rendering                  *)
\* columns hidden behind a wide lead: c is hidden iff c-1 is a shown wide lead
RECURSIVE Shown(_, _, _)
Shown(row, wm, c) ==      \* c is 1-based
  IF c = 1 THEN TRUE
  ELSE ~(Shown(row, wm, c - 1) /\ row[c - 1].d # <<>> /\ W(wm, row[c - 1].d[1]) = 2)
RenderCols(s, wm) ==
  [r \in 1..s.L |->
     FoldLeft(LAMBDA acc, c : IF Shown(s.g[r], wm, c) THEN acc \o s.g[r][c].d ELSE acc, <<>>, [c \in 1..s.C |-> c])]
=============================================================================
