----------------------------- MODULE CursorGeom -----------------------------
(* Typed (Apalache) fragment: the cursor / margin arithmetic of ScreenOps over *)
(* UNBOUNDED geometry.  The closed forms are those of DoCuu .. DoCup, DoVpa,   *)
(* DoDecstbm, Home, DoResize and DoDecrc's clamping, transcribed on integers.  *)
(* Apalache checks that IndInv (cursor inside the screen, margins ordered,     *)
(* origin mode confines the cursor to the region) is INDUCTIVE for ALL integer *)
(* sizes >= 1 and ALL integer parameters (quantification over Int, no bound) - *)
(* the bounded TLC families are not hiding a size-dependent case (DESIGN.md 6, *)
(* C05/C09).  MCCursorGeom.tla binds this transcription to ScreenOps: TLC      *)
(* checks on small sizes that every step of every action here is exactly what  *)
(* ScreenOps!Apply does to the same state on the corresponding event.          *)
EXTENDS Integers

VARIABLES
  \* @type: Int;
  L,
  \* @type: Int;
  C,
  \* @type: Int;
  x,
  \* @type: Int;
  y,
  \* @type: Bool;
  hasMar,
  \* @type: Int;
  top,
  \* @type: Int;
  bot,
  \* @type: Bool;
  decom,
  \* @type: Int;
  saved

Min2(a, b) == IF a <= b THEN a ELSE b
Max2(a, b) == IF a >= b THEN a ELSE b
N1(n) == IF n <= 0 THEN 1 ELSE n
ColmWidth == 132

Top == IF hasMar THEN top ELSE 0
Bot == IF hasMar THEN bot ELSE L - 1
Origin == hasMar /\ decom

IndInv ==
  /\ L >= 1 /\ C >= 1 /\ (saved = -1 \/ saved >= 1)
  /\ 0 <= y /\ y < L /\ 0 <= x /\ x <= C
  /\ hasMar => (0 <= top /\ top < bot /\ bot <= L - 1)
  /\ (decom /\ hasMar) => (top <= y /\ y <= bot)

IndInit ==
  /\ L \in Int /\ C \in Int /\ saved \in Int /\ x \in Int /\ y \in Int /\ top \in Int /\ bot \in Int
  /\ hasMar \in BOOLEAN /\ decom \in BOOLEAN
  /\ IndInv

Init == L = 24 /\ C = 80 /\ x = 0 /\ y = 0 /\ hasMar = FALSE /\ top = 0 /\ bot = 0 /\ decom = FALSE /\ saved = -1

Keep(vs) == vs
Frame1 == UNCHANGED <<L, C, hasMar, top, bot, decom, saved>>

Cuu(n) == Frame1 /\ x' = x /\ y' = Max2(y - N1(n), Top)
Cud(n) == Frame1 /\ x' = x /\ y' = Min2(y + N1(n), Bot)
Cuf(n) == Frame1 /\ y' = y /\ x' = Min2(x + N1(n), C - 1)
Cub(n) == Frame1 /\ y' = y /\ x' = Max2((IF x = C THEN x - 1 ELSE x) - N1(n), 0)
Cnl(n) == Frame1 /\ x' = 0 /\ y' = Min2(y + N1(n), Bot)
Cpl(n) == Frame1 /\ x' = 0 /\ y' = Max2(y - N1(n), Top)
Cha(n) == Frame1 /\ y' = y /\ x' = Min2(N1(n) - 1, C - 1)
Cr     == Frame1 /\ y' = y /\ x' = 0
\* pending wrap is reached by drawing in the last column
DrawLast == Frame1 /\ y' = y /\ x = C - 1 /\ x' = C
Vpa(n) ==
  LET line == N1(n) - 1 + (IF Origin THEN top ELSE 0) IN
  /\ Frame1 /\ x' = x
  /\ y' = IF Origin THEN Max2(top, Min2(line, bot)) ELSE Max2(0, Min2(line, L - 1))
Cup(l, c) ==
  LET line == N1(l) - 1 + (IF Origin THEN top ELSE 0) IN
  /\ Frame1
  /\ IF Origin /\ (line < top \/ line > bot) THEN x' = x /\ y' = y
     ELSE /\ x' = Min2(N1(c) - 1, C - 1)
          /\ y' = IF Origin THEN Max2(top, Min2(line, bot)) ELSE Max2(0, Min2(line, L - 1))
\* DECSTBM with clamping, acceptance only for >= 2 rows, homing (origin-aware)
Decstbm(t, b) ==
  /\ UNCHANGED <<L, C, decom, saved>>
  /\ IF t <= 0 /\ b < 0 THEN hasMar' = FALSE /\ UNCHANGED <<top, bot, x, y>>
     ELSE LET tt == IF t < 0 THEN Top ELSE Max2(0, Min2(t - 1, L - 1))
              bb == IF b < 0 THEN Bot ELSE Max2(0, Min2(b - 1, L - 1)) IN
          IF bb - tt >= 1
            THEN hasMar' = TRUE /\ top' = tt /\ bot' = bb /\ x' = 0 /\ y' = (IF decom THEN tt ELSE 0)
            ELSE UNCHANGED <<hasMar, top, bot, x, y>>
SetDecom == /\ UNCHANGED <<L, C, hasMar, top, bot, saved>> /\ decom' = TRUE /\ x' = 0 /\ y' = (IF hasMar THEN top ELSE 0)
ClrDecom == /\ UNCHANGED <<L, C, hasMar, top, bot, saved>> /\ decom' = FALSE /\ x' = 0 /\ y' = 0
\* resize: nothing at all when the size is unchanged; otherwise margins reset and the cursor clamped into the
\* new bounds (when lines are dropped the implementation first takes a pending-wrap cursor back to the last
\* column of the OLD width - DoResize's x0)
ResizeXY(l, c) ==
  /\ x' = Min2(IF l < L THEN Min2(x, C - 1) ELSE x, c - 1)
  /\ y' = Min2(y, l - 1)
Resize(l, c) ==
  IF l = L /\ c = C THEN UNCHANGED <<L, C, x, y, hasMar, top, bot, decom, saved>>
  ELSE /\ L' = l /\ C' = c /\ hasMar' = FALSE /\ UNCHANGED <<top, bot, decom, saved>>
       /\ ResizeXY(l, c)
\* DECCOLM set: remember the width, resize to 132 columns (a no-op resize keeps the region), erase, home
SetColm ==
  LET keep == hasMar /\ C = ColmWidth IN
  /\ saved' = C /\ C' = ColmWidth /\ L' = L /\ hasMar' = keep /\ UNCHANGED <<top, bot, decom>>
  /\ x' = 0 /\ y' = (IF keep /\ decom THEN top ELSE 0)
\* DECCOLM reset: back to the remembered width if the screen still has 132 columns, erase, home
ClrColm ==
  LET back == C = ColmWidth /\ saved >= 1
      cnew == IF back THEN saved ELSE C
      keep == hasMar /\ cnew = C IN
  /\ saved' = (IF back THEN -1 ELSE saved) /\ C' = cnew /\ L' = L /\ hasMar' = keep /\ UNCHANGED <<top, bot, decom>>
  /\ x' = 0 /\ y' = (IF keep /\ decom THEN top ELSE 0)
\* RIS
Ris == /\ UNCHANGED <<L, C, top, bot>> /\ hasMar' = FALSE /\ decom' = FALSE /\ saved' = -1 /\ x' = 0 /\ y' = 0
\* IL / DL: carriage return when the cursor is inside the region, nothing otherwise
IlDl == Frame1 /\ y' = y /\ x' = (IF Top <= y /\ y <= Bot THEN 0 ELSE x)
\* DECRC: a saved position (any row/column saved earlier, possibly on a larger screen) clamped
\* into the screen and the region; origin mode possibly re-enabled
Decrc(sx, sy, so) ==
  /\ UNCHANGED <<L, C, hasMar, top, bot, saved>>
  /\ decom' = (decom \/ so)
  /\ x' = Min2(sx, C - 1)
  /\ y' = IF hasMar THEN Max2(top, Min2(sy, bot)) ELSE Max2(0, Min2(sy, L - 1))
\* index / reverse index away from the margins only move the cursor
Ind == Frame1 /\ x' = x /\ y' = (IF y = Bot THEN y ELSE Min2(y + 1, Bot))
Ri  == Frame1 /\ x' = x /\ y' = (IF y = Top THEN y ELSE Max2(y - 1, Top))

Next ==
  \/ \E n \in Int : Cuu(n) \/ Cud(n) \/ Cuf(n) \/ Cub(n) \/ Cnl(n) \/ Cpl(n) \/ Cha(n) \/ Vpa(n)
  \/ \E l \in Int, c \in Int : Cup(l, c) \/ Decstbm(l, c)
  \/ Cr \/ DrawLast \/ SetDecom \/ ClrDecom \/ Ind \/ Ri \/ SetColm \/ ClrColm \/ Ris \/ IlDl
  \/ \E l \in Int, c \in Int : l >= 1 /\ c >= 1 /\ Resize(l, c)
  \/ \E sx \in Int, sy \in Int, so \in BOOLEAN : sx >= 0 /\ sy >= 0 /\ Decrc(sx, sy, so)
=============================================================================
