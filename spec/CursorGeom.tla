----------------------------- MODULE CursorGeom -----------------------------
(* Typed (Apalache) fragment: the cursor / margin arithmetic of ScreenOps over *)
(* UNBOUNDED geometry.  The closed forms are those of DoCuu .. DoCup, DoVpa,   *)
(* DoDecstbm, Home, DoResize and DoDecrc's clamping, transcribed on integers.  *)
(* Apalache checks that IndInv (cursor inside the screen, margins ordered,     *)
(* origin mode confines the cursor to the region) is INDUCTIVE for all sizes   *)
(* 1..100000 and all parameters -1..9999 - the bounded TLC families are not     *)
(* hiding a size-dependent case (DESIGN.md 6, C05/C09).                         *)
EXTENDS Integers

VARIABLES
  \* @type: Int;
  L,
  \* @type: Int;
  C,
  \* @type: Int;
  x,
  \* @type: Int;
  y,
  \* @type: Bool;
  hasMar,
  \* @type: Int;
  top,
  \* @type: Int;
  bot,
  \* @type: Bool;
  decom

Min2(a, b) == IF a <= b THEN a ELSE b
Max2(a, b) == IF a >= b THEN a ELSE b
N1(n) == IF n <= 0 THEN 1 ELSE n
Par == -1..9999
Size == 1..100000

Top == IF hasMar THEN top ELSE 0
Bot == IF hasMar THEN bot ELSE L - 1
Origin == hasMar /\ decom

IndInv ==
  /\ L \in Size /\ C \in Size
  /\ 0 <= y /\ y < L /\ 0 <= x /\ x <= C
  /\ hasMar => (0 <= top /\ top < bot /\ bot <= L - 1)
  /\ (decom /\ hasMar) => (top <= y /\ y <= bot)

IndInit ==
  /\ L \in Int /\ C \in Int /\ x \in Int /\ y \in Int /\ top \in Int /\ bot \in Int
  /\ hasMar \in BOOLEAN /\ decom \in BOOLEAN
  /\ IndInv

Init == L = 24 /\ C = 80 /\ x = 0 /\ y = 0 /\ hasMar = FALSE /\ top = 0 /\ bot = 0 /\ decom = FALSE

Keep(vs) == vs
Frame1 == UNCHANGED <<L, C, hasMar, top, bot, decom>>

Cuu(n) == Frame1 /\ x' = x /\ y' = Max2(y - N1(n), Top)
Cud(n) == Frame1 /\ x' = x /\ y' = Min2(y + N1(n), Bot)
Cuf(n) == Frame1 /\ y' = y /\ x' = Min2(x + N1(n), C - 1)
Cub(n) == Frame1 /\ y' = y /\ x' = Max2((IF x = C THEN x - 1 ELSE x) - N1(n), 0)
Cnl(n) == Frame1 /\ x' = 0 /\ y' = Min2(y + N1(n), Bot)
Cpl(n) == Frame1 /\ x' = 0 /\ y' = Max2(y - N1(n), Top)
Cha(n) == Frame1 /\ y' = y /\ x' = Min2(N1(n) - 1, C - 1)
Cr     == Frame1 /\ y' = y /\ x' = 0
\* pending wrap is reached by drawing in the last column
DrawLast == Frame1 /\ y' = y /\ x = C - 1 /\ x' = C
Vpa(n) ==
  LET line == N1(n) - 1 + (IF Origin THEN top ELSE 0) IN
  /\ Frame1 /\ x' = x
  /\ y' = IF Origin THEN Max2(top, Min2(line, bot)) ELSE Max2(0, Min2(line, L - 1))
Cup(l, c) ==
  LET line == N1(l) - 1 + (IF Origin THEN top ELSE 0) IN
  /\ Frame1
  /\ IF Origin /\ (line < top \/ line > bot) THEN x' = x /\ y' = y
     ELSE /\ x' = Min2(N1(c) - 1, C - 1)
          /\ y' = IF Origin THEN Max2(top, Min2(line, bot)) ELSE Max2(0, Min2(line, L - 1))
\* DECSTBM with clamping, acceptance only for >= 2 rows, homing (origin-aware)
Decstbm(t, b) ==
  /\ UNCHANGED <<L, C, decom>>
  /\ IF t <= 0 /\ b < 0 THEN hasMar' = FALSE /\ UNCHANGED <<top, bot, x, y>>
     ELSE LET tt == IF t < 0 THEN Top ELSE Max2(0, Min2(t - 1, L - 1))
              bb == IF b < 0 THEN Bot ELSE Max2(0, Min2(b - 1, L - 1)) IN
          IF bb - tt >= 1
            THEN hasMar' = TRUE /\ top' = tt /\ bot' = bb /\ x' = 0 /\ y' = (IF decom THEN tt ELSE 0)
            ELSE UNCHANGED <<hasMar, top, bot, x, y>>
SetDecom == /\ UNCHANGED <<L, C, hasMar, top, bot>> /\ decom' = TRUE /\ x' = 0 /\ y' = (IF hasMar THEN top ELSE 0)
ClrDecom == /\ UNCHANGED <<L, C, hasMar, top, bot>> /\ decom' = FALSE /\ x' = 0 /\ y' = 0
\* resize: margins reset, cursor clamped into the new bounds
Resize(l, c) ==
  /\ L' = l /\ C' = c /\ hasMar' = FALSE /\ UNCHANGED <<top, bot, decom>>
  /\ x' = Min2(x, c - 1) /\ y' = Min2(y, l - 1)
\* DECRC: a saved position (any row/column saved earlier, possibly on a larger screen) clamped
\* into the screen and the region; origin mode possibly re-enabled
Decrc(sx, sy, so) ==
  /\ UNCHANGED <<L, C, hasMar, top, bot>>
  /\ decom' = (decom \/ so)
  /\ x' = Min2(sx, C - 1)
  /\ y' = IF hasMar THEN Max2(top, Min2(sy, bot)) ELSE Max2(0, Min2(sy, L - 1))
\* index / reverse index away from the margins only move the cursor
Ind == Frame1 /\ x' = x /\ y' = (IF y = Bot THEN y ELSE Min2(y + 1, Bot))
Ri  == Frame1 /\ x' = x /\ y' = (IF y = Top THEN y ELSE Max2(y - 1, Top))

Next ==
  \/ \E n \in Par : Cuu(n) \/ Cud(n) \/ Cuf(n) \/ Cub(n) \/ Cnl(n) \/ Cpl(n) \/ Cha(n) \/ Vpa(n)
  \/ \E l \in Par, c \in Par : Cup(l, c) \/ Decstbm(l, c)
  \/ Cr \/ DrawLast \/ SetDecom \/ ClrDecom \/ Ind \/ Ri
  \/ \E l \in Size, c \in Size : Resize(l, c)
  \/ \E sx \in 0..100000, sy \in 0..100000, so \in BOOLEAN : Decrc(sx, sy, so)
=============================================================================
