------------------------------ MODULE ScreenOps ------------------------------
(* The screen layer of memterm as pure operators over a state record.        *)
(*                                                                           *)
(* State record s (the abstract state of DESIGN.md 4.1):                      *)
(*   L, C     lines, columns (>= 1)                                           *)
(*   g        Seq(L) of Seq(C) of cells [d, fg, bg, a]; d = <<32>> blank,     *)
(*            <<>> placeholder after a wide lead, <<cp, marks...>> otherwise  *)
(*   x, y     cursor, 0-based; x = C is the pending-wrap position             *)
(*   attr     current rendition [fg, bg, a];  hid  cursor hidden              *)
(*   modes    set of mode numbers (private n stored as 32*n, as the code does)*)
(*   mar      <<>> or <<top, bottom>>;  tabs  set of columns                  *)
(*   title, icon  Seq(code point);  cs 0/1 active set;  g0, g1 table names    *)
(*   saves    Seq of savepoints;  savedcols  -1 or a width;  dirty  set       *)
(*   sc       ghost: number of scrolls performed (not part of the state)      *)
(*                                                                           *)
(* One operator per ParserListener method / public Screen method, with the   *)
(* same internal steps as the implementation, so that it can be bound to it. *)
(* An event is [op, p (Seq Int, -1 = absent), s (Seq code point), pr, wm].    *)
EXTENDS Util, Charsets, Sgr

\* mode numbers (ANSI as is, DEC private shifted left by 5)
LNM     == 20
IRM     == 4
DECTCEM == 800
DECSCNM == 160
DECOM   == 192
DECAWM  == 224
DECCOLM == 96
ColmWidth == 132

-----------------------------------------------------------------------------
(* environment facts: display width and combining-ness of a code point.      *)
(* wm lists <<cp, width, comb>> where they differ from the default rule.      *)
WmHit(wm, cp) == { i \in 1..Len(wm) : wm[i][1] = cp }
W(wm, cp) ==
  LET h == WmHit(wm, cp) IN
  IF h # {} THEN wm[CHOOSE i \in h : TRUE][2]
  ELSE IF cp < 32 THEN 0 ELSE IF cp < 127 THEN 1 ELSE IF cp < 160 THEN 0 ELSE 1
Comb(wm, cp) ==
  LET h == WmHit(wm, cp) IN IF h # {} THEN wm[CHOOSE i \in h : TRUE][3] = 1 ELSE FALSE

-----------------------------------------------------------------------------
DefAttr(s)  == [fg |-> "default", bg |-> "default", a |-> IF DECSCNM \in s.modes THEN REV ELSE 0]
Cell(d, r)  == [d |-> d, fg |-> r.fg, bg |-> r.bg, a |-> r.a]
Blank(s)    == Cell(<<32>>, DefAttr(s))            \* default cell: ICH/DCH/scroll/resize fill
Erased(s)   == Cell(<<32>>, s.attr)                \* erase fill: current rendition
BlankRow(s) == Rep(s.C, Blank(s))
ErasedRow(s) == Rep(s.C, Erased(s))

HasMar(s) == s.mar # <<>>
Top(s) == IF HasMar(s) THEN s.mar[1] ELSE 0
Bot(s) == IF HasMar(s) THEN s.mar[2] ELSE s.L - 1
Origin(s) == HasMar(s) /\ DECOM \in s.modes
AllRows(s) == 0..(s.L - 1)

CellAt(s, y, x) == s.g[y + 1][x + 1]
SetCell(s, y, x, c) == [s EXCEPT !.g[y + 1][x + 1] = c]
MarkDirty(s, rows) == [s EXCEPT !.dirty = @ \cup rows]

P(ev, i) == IF Len(ev.p) >= i THEN ev.p[i] ELSE -1

-----------------------------------------------------------------------------
(* cursor movement (C05)                                                     *)
EnsureH(s) == [s EXCEPT !.x = Min2(s.x, s.C - 1)]
EnsureV(s, useMar) ==
  IF (useMar \/ DECOM \in s.modes) /\ HasMar(s)
    THEN [s EXCEPT !.y = Clamp(s.y, s.mar[1], s.mar[2])]
    ELSE [s EXCEPT !.y = Clamp(s.y, 0, s.L - 1)]

DoCuu(s, n) == [s EXCEPT !.y = Max2(s.y - N1(n), Top(s))]
DoCud(s, n) == [s EXCEPT !.y = Min2(s.y + N1(n), Bot(s))]
DoCuf(s, n) == [s EXCEPT !.x = Min2(s.x + N1(n), s.C - 1)]
DoCub(s, n) == LET x0 == IF s.x = s.C THEN s.x - 1 ELSE s.x IN [s EXCEPT !.x = Max2(x0 - N1(n), 0)]
DoCr(s)     == [s EXCEPT !.x = 0]
DoCnl(s, n) == DoCr(DoCud(s, n))
DoCpl(s, n) == DoCr(DoCuu(s, n))
DoCha(s, n) == [s EXCEPT !.x = Min2(N1(n) - 1, s.C - 1)]
DoVpa(s, n) ==
  LET line == N1(n) - 1 + (IF Origin(s) THEN s.mar[1] ELSE 0) IN
  EnsureV([s EXCEPT !.y = line], FALSE)
DoCup(s, l, c) ==
  LET line == N1(l) - 1 + (IF Origin(s) THEN s.mar[1] ELSE 0) IN
  IF Origin(s) /\ (line < s.mar[1] \/ line > s.mar[2]) THEN s      \* outside the region: ignored
  ELSE EnsureV(EnsureH([s EXCEPT !.x = N1(c) - 1, !.y = line]), FALSE)
Home(s) == DoCup(s, -1, -1)
DoBs(s) == DoCub(s, -1)

(* tab stops (C18) *)
DoHt(s)  == [s EXCEPT !.x = SetMin({t \in s.tabs : t > s.x /\ t <= s.C - 1} \cup {s.C - 1})]
DoHts(s) == [s EXCEPT !.tabs = @ \cup {s.x}]
DoTbc(s, how) ==
  CASE N0(how) = 0 -> [s EXCEPT !.tabs = @ \ {s.x}]
    [] N0(how) = 3 -> [s EXCEPT !.tabs = {}]
    [] OTHER -> s
DefaultTabs(c) == { t \in 1..(c - 1) : t % 8 = 0 }

-----------------------------------------------------------------------------
(* scrolling (C06)                                                           *)
\* rows top..bot (0-based, inclusive) replaced by `rows`
SpliceRows(s, top, bot, rows) ==
  [s EXCEPT !.g = SubSeq(s.g, 1, top) \o rows \o SubSeq(s.g, bot + 2, s.L)]

Bump(s) == [s EXCEPT !.sc = @ + 1]     \* ghost counter of scrolls (never compared; used by C17)
ScrollUp(s) ==     \* region up by one: the top line of the region is lost
  LET t == Top(s)  b == Bot(s) IN
  Bump(MarkDirty(SpliceRows(s, t, b, SubSeq(s.g, t + 2, b + 1) \o <<BlankRow(s)>>), AllRows(s)))
ScrollDown(s) ==   \* region down by one: the bottom line of the region is lost
  LET t == Top(s)  b == Bot(s) IN
  Bump(MarkDirty(SpliceRows(s, t, b, <<BlankRow(s)>> \o SubSeq(s.g, t + 1, b)), AllRows(s)))

\* Away from the margin, index / reverse index only move the cursor.  With the cursor OUTSIDE the region the
\* implementation (like pyte) goes through CUD / CUU and therefore lands ON the margin (moving the wrong way);
\* the statements only say "the next line" / "only move the cursor", so the alternative - one line towards the
\* screen edge - is accepted as well (freedom point; xt selects it, the operational specification uses FALSE)
DoIndX(s, xt) == IF s.y = Bot(s) THEN ScrollUp(s)
                 ELSE IF xt /\ s.y > Bot(s) THEN [s EXCEPT !.y = Min2(s.y + 1, s.L - 1)] ELSE DoCud(s, -1)
DoRiX(s, xt)  == IF s.y = Top(s) THEN ScrollDown(s)
                 ELSE IF xt /\ s.y < Top(s) THEN [s EXCEPT !.y = Max2(s.y - 1, 0)] ELSE DoCuu(s, -1)
DoLfX(s, xt)  == LET t == DoIndX(s, xt) IN IF LNM \in s.modes THEN DoCr(t) ELSE t
DoInd(s) == DoIndX(s, FALSE)
DoRi(s)  == DoRiX(s, FALSE)
DoLf(s)  == DoLfX(s, FALSE)

DoIl(s, n) ==
  IF Top(s) <= s.y /\ s.y <= Bot(s) THEN
    LET b == Bot(s)  k == Min2(N1(n), b - s.y + 1)
        rows == Rep(k, BlankRow(s)) \o SubSeq(s.g, s.y + 1, b + 1 - k) IN
    DoCr(MarkDirty(SpliceRows(s, s.y, b, rows), s.y..(s.L - 1)))
  ELSE s
DoDl(s, n) ==
  IF Top(s) <= s.y /\ s.y <= Bot(s) THEN
    LET b == Bot(s)  k == Min2(N1(n), b - s.y + 1)
        rows == SubSeq(s.g, s.y + 1 + k, b + 1) \o Rep(k, BlankRow(s)) IN
    DoCr(MarkDirty(SpliceRows(s, s.y, b, rows), s.y..(s.L - 1)))
  ELSE s

DoDecstbm(s, top, bottom) ==
  IF top <= 0 /\ bottom < 0 THEN [s EXCEPT !.mar = <<>>]       \* `CSI r`: remove the region, no homing
  ELSE
    LET t == IF top < 0 THEN Top(s) ELSE Clamp(top - 1, 0, s.L - 1)
        b == IF bottom < 0 THEN Bot(s) ELSE Clamp(bottom - 1, 0, s.L - 1) IN
    IF b - t >= 1 THEN Home([s EXCEPT !.mar = <<t, b>>]) ELSE s

-----------------------------------------------------------------------------
(* character insertion / deletion / erasure (C13, C07)                       *)
SetRow(s, y, row) == [s EXCEPT !.g[y + 1] = row]
Row(s, y) == s.g[y + 1]

InsertBlanks(s, k) ==   \* k blanks at the cursor column, rest shifts right, overflow lost
  LET row == Row(s, s.y) IN
  SetRow(s, s.y, SubSeq(row, 1, s.x) \o Rep(k, Blank(s)) \o SubSeq(row, s.x + 1, s.C - k))
DoIch(s, n) ==
  LET k == Min2(N1(n), s.C - s.x) IN
  MarkDirty(IF k <= 0 THEN s ELSE InsertBlanks(s, k), {s.y})
DoDch(s, n) ==
  LET k == Min2(N1(n), s.C - s.x)  row == Row(s, s.y) IN
  MarkDirty(IF k <= 0 THEN s
            ELSE SetRow(s, s.y, SubSeq(row, 1, s.x) \o SubSeq(row, s.x + k + 1, s.C) \o Rep(k, Blank(s))),
            {s.y})
\* erase columns lo..hi (0-based inclusive, clipped to the row) of line y
EraseCols(s, y, lo, hi) ==
  SetRow(s, y, [c \in 1..s.C |-> IF c - 1 >= lo /\ c - 1 <= hi THEN Erased(s) ELSE Row(s, y)[c]])
DoEch(s, n) == MarkDirty(EraseCols(s, s.y, s.x, s.x + N1(n) - 1), {s.y})
DoEl(s, how) ==
  CASE N0(how) = 0 -> MarkDirty(EraseCols(s, s.y, s.x, s.C - 1), {s.y})
    [] N0(how) = 1 -> MarkDirty(EraseCols(s, s.y, 0, s.x), {s.y})
    [] N0(how) = 2 -> MarkDirty(EraseCols(s, s.y, 0, s.C - 1), {s.y})
    [] OTHER -> s
EraseRows(s, lo, hi) ==     \* whole lines lo..hi (0-based inclusive)
  MarkDirty([s EXCEPT !.g = [r \in 1..s.L |-> IF r - 1 >= lo /\ r - 1 <= hi THEN ErasedRow(s) ELSE s.g[r]]],
            {r \in AllRows(s) : r >= lo /\ r <= hi})
DoEd(s, how) ==
  CASE N0(how) = 0 -> DoEl(EraseRows(s, s.y + 1, s.L - 1), 0)
    [] N0(how) = 1 -> DoEl(EraseRows(s, 0, s.y - 1), 1)
    [] N0(how) \in {2, 3} -> EraseRows(s, 0, s.L - 1)
    [] OTHER -> s

-----------------------------------------------------------------------------
(* drawing (C04, C20)                                                        *)
ActiveTable(s) == IF s.cs = 1 THEN s.g1 ELSE s.g0

\* attach a combining mark to the cell before the cursor (previous row's last
\* cell when the cursor is in column 0); nothing to attach to at the origin
Attach(s, cp) ==
  IF s.x > 0 THEN
     MarkDirty([s EXCEPT !.g[s.y + 1][s.x].d = @ \o <<cp>>], {s.y})
  ELSE IF s.y > 0 THEN
     MarkDirty([s EXCEPT !.g[s.y][s.C].d = @ \o <<cp>>], {s.y - 1})
  ELSE s

\* xt: the wrap's line feed from below the region goes one line down instead of onto the bottom margin
\* zwWrap: whether a combining mark at the pending-wrap column wraps first
\* (freedom point of C04; the operational specification uses TRUE, as the code does)
DrawCharX(s, cp0, wm, zwWrap, xt) ==
  LET cp == Translate(ActiveTable(s), cp0)
      w  == W(wm, cp)
      cm == w = 0 /\ Comb(wm, cp)
  IN
  IF w = 0 /\ ~cm THEN s                                   \* unprintable / zero-width: nothing
  ELSE
    LET \* 1. pending wrap
        s1 == IF s.x = s.C THEN
                 IF DECAWM \in s.modes THEN
                    IF w > 0 \/ zwWrap THEN DoLfX(DoCr(MarkDirty(s, {s.y})), xt) ELSE s
                 ELSE IF w > 0 THEN [s EXCEPT !.x = Max2(s.x - w, 0)] ELSE s
              ELSE s
        \* 2. insert mode
        s2 == IF IRM \in s1.modes /\ w > 0 THEN DoIch(s1, w) ELSE s1
    IN
    IF cm THEN Attach(s2, cp)
    ELSE
      LET lead == SetCell(s2, s2.y, s2.x, Cell(<<cp>>, s2.attr))
          s3 == IF w = 2 /\ s2.x + 1 < s2.C
                  THEN SetCell(lead, s2.y, s2.x + 1, Cell(<<>>, s2.attr))
                  ELSE lead
      IN MarkDirty([s3 EXCEPT !.x = Min2(s2.x + w, s2.C)], {s2.y})

DrawChar(s, cp0, wm, zwWrap) == DrawCharX(s, cp0, wm, zwWrap, FALSE)
DoDrawX(s, text, wm, zwWrap, xt) ==
  LET r == FoldLeft(LAMBDA acc, cp : DrawCharX(acc, cp, wm, zwWrap, xt), s, text) IN MarkDirty(r, {r.y})
DoDrawZ(s, text, wm, zwWrap) == DoDrawX(s, text, wm, zwWrap, FALSE)
DoDraw(s, text, wm) == DoDrawZ(s, text, wm, TRUE)

-----------------------------------------------------------------------------
(* rendition, charsets, save/restore, modes, reset, resize                   *)
DoSgr(s, ps) == [s EXCEPT !.attr = Sgr(DefAttr(s), s.attr, ps)]

DoCharset(s, code, mode) ==
  IF code \in CharsetCodes
    THEN IF mode = 40 THEN [s EXCEPT !.g0 = code]
         ELSE IF mode = 41 THEN [s EXCEPT !.g1 = code] ELSE s
    ELSE s
\* code point of the designator final -> table name (only the four supported ones)
CodeName(cps) ==
  IF cps = <<66>> THEN "B" ELSE IF cps = <<48>> THEN "0"
  ELSE IF cps = <<85>> THEN "U" ELSE IF cps = <<86>> THEN "V" ELSE "?"

Savepoint(s) == [x |-> s.x, y |-> s.y, attr |-> s.attr, hid |-> s.hid, cs |-> s.cs,
                 g0 |-> s.g0, g1 |-> s.g1, origin |-> DECOM \in s.modes, wrap |-> DECAWM \in s.modes]
DoDecsc(s) == [s EXCEPT !.saves = Append(@, Savepoint(s))]
DoDecrc(s) ==
  IF s.saves # <<>> THEN
    LET sp == s.saves[Len(s.saves)]
        m1 == s.modes \cup (IF sp.origin THEN {DECOM} ELSE {}) \cup (IF sp.wrap THEN {DECAWM} ELSE {})
        s1 == [s EXCEPT !.saves = SubSeq(@, 1, Len(@) - 1), !.g0 = sp.g0, !.g1 = sp.g1, !.cs = sp.cs,
                        !.modes = m1, !.x = sp.x, !.y = sp.y, !.attr = sp.attr, !.hid = sp.hid]
    IN EnsureV(EnsureH(s1), TRUE)
  ELSE Home([s EXCEPT !.modes = @ \ {DECOM}])

\* crop / extend the grid to lnew x cnew: surplus rows leave from the top,
\* surplus columns from the right, additions are default cells
ResizeGrid(s, lnew, cnew) ==
  LET rows == IF lnew < s.L THEN SubSeq(s.g, s.L - lnew + 1, s.L)
              ELSE s.g \o Rep(lnew - s.L, BlankRow(s))
      fit(row) == IF cnew <= Len(row) THEN SubSeq(row, 1, cnew) ELSE row \o Rep(cnew - Len(row), Blank(s))
  IN [r \in 1..lnew |-> fit(rows[r])]
DoResize(s, l0, c0) ==
  LET lnew == IF l0 < 0 THEN s.L ELSE l0
      cnew == IF c0 < 0 THEN s.C ELSE c0 IN
  IF lnew = s.L /\ cnew = s.C THEN s
  ELSE \* (when lines are dropped the implementation saves and restores the cursor around the deletion,
       \*  which takes a pending-wrap cursor back to the last column of the OLD width first)
       LET x0 == IF lnew < s.L THEN Min2(s.x, s.C - 1) ELSE s.x IN
       [s EXCEPT !.g = ResizeGrid(s, lnew, cnew), !.L = lnew, !.C = cnew, !.mar = <<>>,
                 !.dirty = 0..(lnew - 1),
                 !.x = Min2(x0, cnew - 1), !.y = Min2(s.y, lnew - 1)]

ShiftModes(ps, pr) == { IF pr THEN 32 * ps[i] ELSE ps[i] : i \in 1..Len(ps) }
SetReverse(s, on) ==
  [s EXCEPT !.g = [r \in 1..s.L |-> [c \in 1..s.C |->
                     [s.g[r][c] EXCEPT !.a = IF on THEN SetBit(@, REV) ELSE ClrBit(@, REV)]]]]
DoSm(s, ps, pr) ==
  LET ml == ShiftModes(ps, pr)
      s0 == [s EXCEPT !.modes = @ \cup ml]
      s1 == IF DECCOLM \in ml
              THEN Home(DoEd(DoResize([s0 EXCEPT !.savedcols = s0.C], -1, ColmWidth), 2)) ELSE s0
      s2 == IF DECOM \in ml THEN Home(s1) ELSE s1
      s3 == IF DECSCNM \in ml THEN MarkDirty(DoSgr(SetReverse(s2, TRUE), <<7>>), AllRows(s2)) ELSE s2
      s4 == IF DECTCEM \in ml THEN [s3 EXCEPT !.hid = FALSE] ELSE s3
  IN s4
DoRm(s, ps, pr) ==
  LET ml == ShiftModes(ps, pr)
      s0 == [s EXCEPT !.modes = @ \ ml]
      s1 == IF DECCOLM \in ml
              THEN LET r == IF s0.C = ColmWidth /\ s0.savedcols >= 0
                              THEN [DoResize(s0, -1, s0.savedcols) EXCEPT !.savedcols = -1] ELSE s0
                   IN Home(DoEd(r, 2))
              ELSE s0
      s2 == IF DECOM \in ml THEN Home(s1) ELSE s1
      s3 == IF DECSCNM \in ml THEN MarkDirty(DoSgr(SetReverse(s2, FALSE), <<27>>), AllRows(s2)) ELSE s2
      s4 == IF DECTCEM \in ml THEN [s3 EXCEPT !.hid = TRUE] ELSE s3
  IN s4

DefaultModes == {DECAWM, DECTCEM}
\* a newly constructed screen (saves empty) -- also what RIS yields, apart from the stack
Fresh(c, l) ==
  LET blank == [d |-> <<32>>, fg |-> "default", bg |-> "default", a |-> 0] IN
  [L |-> l, C |-> c, g |-> Rep(l, Rep(c, blank)), x |-> 0, y |-> 0,
   attr |-> [fg |-> "default", bg |-> "default", a |-> 0], hid |-> FALSE,
   modes |-> DefaultModes, mar |-> <<>>, tabs |-> DefaultTabs(c), title |-> <<>>, icon |-> <<>>,
   cs |-> 0, g0 |-> "B", g1 |-> "0", saves |-> <<>>, savedcols |-> -1, dirty |-> 0..(l - 1), sc |-> 0]
\* RIS, field by field as the implementation does it; the saved-cursor stack survives
DoRis(s) ==
  LET s1 == [s EXCEPT !.dirty = AllRows(s), !.mar = <<>>, !.modes = DefaultModes,
                      !.title = <<>>, !.icon = <<>>, !.cs = 0, !.g0 = "B", !.g1 = "0",
                      !.tabs = DefaultTabs(s.C), !.hid = FALSE, !.savedcols = -1] IN
  Home([s1 EXCEPT !.g = Rep(s.L, BlankRow(s1)), !.x = 0, !.y = 0, !.attr = DefAttr(s1)])

DoDecaln(s) ==
  MarkDirty([s EXCEPT !.g = [r \in 1..s.L |-> [c \in 1..s.C |-> [s.g[r][c] EXCEPT !.d = <<69>>]]]], AllRows(s))

-----------------------------------------------------------------------------
(* display (C10): rendering of the grid; the state does not change           *)
RECURSIVE RenderFrom(_, _, _)
RenderFrom(row, wm, i) ==
  IF i > Len(row) THEN <<>>
  ELSE LET d == row[i].d
           wide == d # <<>> /\ W(wm, d[1]) = 2
       IN d \o RenderFrom(row, wm, IF wide THEN i + 2 ELSE i + 1)
Render(s, wm) == [r \in 1..s.L |-> RenderFrom(s.g[r], wm, 1)]

-----------------------------------------------------------------------------
(* dispatcher: one abstract event -> next state                              *)
ApplyX(s, ev, zwWrap, xt) ==
  LET op == ev.op IN
  CASE op = "draw"    -> DoDrawX(s, ev.s, ev.wm, zwWrap, xt)
    [] op = "cuu"     -> DoCuu(s, P(ev, 1))
    [] op = "cud"     -> DoCud(s, P(ev, 1))
    [] op = "cuf"     -> DoCuf(s, P(ev, 1))
    [] op = "cub"     -> DoCub(s, P(ev, 1))
    [] op = "cnl"     -> DoCnl(s, P(ev, 1))
    [] op = "cpl"     -> DoCpl(s, P(ev, 1))
    [] op = "cha"     -> DoCha(s, P(ev, 1))
    [] op = "vpa"     -> DoVpa(s, P(ev, 1))
    [] op = "cup"     -> DoCup(s, P(ev, 1), P(ev, 2))
    [] op = "bs"      -> DoBs(s)
    [] op = "cr"      -> DoCr(s)
    [] op = "ht"      -> DoHt(s)
    [] op = "hts"     -> DoHts(s)
    [] op = "tbc"     -> DoTbc(s, P(ev, 1))
    [] op = "ind"     -> DoIndX(s, xt)
    [] op = "lf"      -> DoLfX(s, xt)
    [] op = "ri"      -> DoRiX(s, xt)
    [] op = "il"      -> DoIl(s, P(ev, 1))
    [] op = "dl"      -> DoDl(s, P(ev, 1))
    [] op = "decstbm" -> DoDecstbm(s, P(ev, 1), P(ev, 2))
    [] op = "ich"     -> DoIch(s, P(ev, 1))
    [] op = "dch"     -> DoDch(s, P(ev, 1))
    [] op = "ech"     -> DoEch(s, P(ev, 1))
    [] op = "el"      -> DoEl(s, P(ev, 1))
    [] op = "ed"      -> DoEd(s, P(ev, 1))
    [] op = "sgr"     -> DoSgr(s, ev.p)
    [] op = "sm"      -> DoSm(s, ev.p, ev.pr)
    [] op = "rm"      -> DoRm(s, ev.p, ev.pr)
    [] op = "decsc"   -> DoDecsc(s)
    [] op = "decrc"   -> DoDecrc(s)
    [] op = "so"      -> [s EXCEPT !.cs = 1]
    [] op = "si"      -> [s EXCEPT !.cs = 0]
    [] op = "charset" -> DoCharset(s, CodeName(ev.s), P(ev, 1))
    [] op = "title"   -> [s EXCEPT !.title = ev.s]
    [] op = "icon"    -> [s EXCEPT !.icon = ev.s]
    [] op = "ris"     -> DoRis(s)
    [] op = "decaln"  -> DoDecaln(s)
    [] op = "resize"  -> DoResize(s, P(ev, 1), P(ev, 2))
    [] op = "cleardirty" -> [s EXCEPT !.dirty = {}]
    [] op \in {"bel", "da", "display"} -> s
    [] OTHER          -> s
ApplyZ(s, ev, zwWrap) == ApplyX(s, ev, zwWrap, FALSE)
Apply(s, ev) == ApplyZ(s, ev, TRUE)

KnownOps == {"draw","cuu","cud","cuf","cub","cnl","cpl","cha","vpa","cup","bs","cr","ht","hts","tbc",
             "ind","lf","ri","il","dl","decstbm","ich","dch","ech","el","ed","sgr","sm","rm","decsc",
             "decrc","so","si","charset","title","icon","ris","decaln","resize","cleardirty","bel","da","display"}
=============================================================================
