-------------------------------- MODULE MCSeq --------------------------------
(* Bounded models of MULTI-STEP histories.  A state is one whole sequence of  *)
(* up to MaxSeq events over a model-specific alphabet, applied to a base       *)
(* state.  Invariants: every step satisfies the declarative reading of the     *)
(* property its operation belongs to (Decl.tla); characters discarded by       *)
(* ICH/DCH/erase/resize never reappear (the bag of visible non-blank cells     *)
(* only shrinks under those operations); RIS forgets everything.               *)
(* Emit: the whole sequence as one vector - on the real code this is where     *)
(* hidden representation state left behind by one operation is revealed by a   *)
(* later, different one (C13, C14, C15, C16).                                   *)
EXTENDS Decl, Json

CONSTANTS Model, MaxSeq, EmitVectors

VARIABLES base, seq, sts      \* sts[i] = the state before seq[i] (computed once per sequence)
vars == <<base, seq, sts>>

WIDE == 19968
WmModel == << <<WIDE, 2, 0>>, <<822, 0, 1>> >>
Ev(op, p)      == [op |-> op, p |-> p, s |-> <<>>, pr |-> FALSE, wm |-> <<>>]
EvM(op, p, pr) == [op |-> op, p |-> p, s |-> <<>>, pr |-> pr, wm |-> <<>>]
EvS(op, t)     == [op |-> op, p |-> <<>>, s |-> t, pr |-> FALSE, wm |-> WmModel]

RowColour(r) == 31 + (r % 6)
FillRow(c, r) == << Ev("cup", <<r + 1, 1>>), Ev("sgr", <<RowColour(r)>>),
                    EvS("draw", [k \in 1..c |-> 97 + ((r * c + k - 1) % 26)]) >>
RECURSIVE FillRows(_, _)
FillRows(c, rows) == IF rows = <<>> THEN <<>> ELSE FillRow(c, Head(rows)) \o FillRows(c, Tail(rows))
Fill(c, l) == FillRows(c, [i \in 1..l |-> i - 1]) \o << Ev("sgr", <<0>>), Ev("cup", <<1, 1>>) >>

Bases ==
  CASE Model = "C13seq" -> { [c |-> 4, l |-> 2, h |-> Fill(4, 2)], [c |-> 4, l |-> 2, h |-> <<EvS("draw", <<113>>), Ev("cup", <<1, 4>>), EvS("draw", <<122>>), Ev("cup", <<1, 2>>)>>] }
    [] Model = "C16seq" -> { [c |-> 3, l |-> 3, h |-> Fill(3, 3)], [c |-> 3, l |-> 3, h |-> Fill(3, 3) \o <<Ev("decstbm", <<2, 3>>), EvM("sm", <<6>>, TRUE)>>] }
    [] Model = "C14seq" -> { [c |-> 3, l |-> 3, h |-> Fill(3, 3)],
                             [c |-> 3, l |-> 3, h |-> Fill(3, 3) \o <<Ev("cup", <<3, 3>>), Ev("sgr", <<4>>), Ev("decsc", <<>>), Ev("cup", <<1, 1>>)>>],
                             [c |-> 3, l |-> 3, h |-> Fill(3, 3) \o <<Ev("decstbm", <<2, 3>>), EvM("sm", <<6>>, TRUE), Ev("decsc", <<>>), Ev("decsc", <<>>)>>],
                             \* saved with origin mode on (no region) in the far corner; saved beyond the old width under DECCOLM
                             [c |-> 4, l |-> 3, h |-> Fill(4, 3) \o <<EvM("sm", <<6>>, TRUE), Ev("cup", <<3, 4>>), Ev("decsc", <<>>)>>],
                             [c |-> 4, l |-> 3, h |-> Fill(4, 3)] }
    \* (a model of its own, so that the 132-column states do not multiply with the depth-4 exploration of C14seq)
    [] Model = "C14colm" -> { [c |-> 3, l |-> 1, h |-> <<EvM("sm", <<3>>, TRUE), Ev("cup", <<1, 101>>), Ev("sgr", <<4>>), Ev("decsc", <<>>)>>] }
    [] Model = "C15seq" -> { [c |-> 3, l |-> 2, h |-> Fill(3, 2)] }
    [] Model = "C06seq" -> { [c |-> 2, l |-> 4, h |-> Fill(2, 4)], [c |-> 2, l |-> 4, h |-> <<EvS("draw", <<113>>), Ev("cup", <<3, 1>>), EvS("draw", <<122>>)>>] }

Alphabet ==
  CASE Model = "C13seq" ->
         { Ev("ich", <<1>>), Ev("ich", <<2>>), Ev("dch", <<1>>), Ev("dch", <<3>>), Ev("el", <<0>>), Ev("el", <<1>>), Ev("ech", <<2>>),
           Ev("cuf", <<1>>), Ev("cub", <<2>>), Ev("cha", <<4>>), EvS("draw", <<120>>), EvS("draw", <<120, 121, 122, 119>>), EvS("draw", <<WIDE>>),
           EvM("sm", <<4>>, FALSE), Ev("resize", <<-1, 5>>), Ev("resize", <<-1, 3>>), Ev("display", <<>>) }
    [] Model = "C16seq" ->
         { Ev("resize", <<a, b>>) : a \in {1, 2, 3, 4}, b \in {1, 2, 3, 4} }
         \cup { Ev("ri", <<>>), Ev("ind", <<>>), Ev("cup", <<3, 3>>), EvS("draw", <<120>>), Ev("ich", <<1>>), Ev("el", <<1>>), Ev("display", <<>>),
                EvM("sm", <<3>>, TRUE), EvM("rm", <<3>>, TRUE) }
    [] Model = "C14seq" ->
         { Ev("decsc", <<>>), Ev("decrc", <<>>), Ev("cup", <<2, 2>>), Ev("cup", <<3, 3>>), Ev("sgr", <<1, 31>>), Ev("sgr", <<0>>), Ev("so", <<>>), Ev("si", <<>>),
           EvM("sm", <<6>>, TRUE), EvM("rm", <<6>>, TRUE), EvM("rm", <<7>>, TRUE), EvM("rm", <<25>>, TRUE), Ev("decstbm", <<1, 2>>), Ev("decstbm", <<>>),
           Ev("resize", <<2, 2>>), Ev("resize", <<3, 3>>), Ev("resize", <<4, 4>>), EvS("draw", <<120>>) }
    [] Model = "C14colm" ->
         { Ev("decsc", <<>>), Ev("decrc", <<>>), Ev("cup", <<1, 2>>), Ev("cup", <<1, 120>>), Ev("sgr", <<1, 31>>), Ev("so", <<>>),
           EvM("sm", <<6>>, TRUE), EvM("rm", <<7>>, TRUE), Ev("decstbm", <<>>), Ev("resize", <<1, 2>>), Ev("resize", <<1, 140>>), EvS("draw", <<120>>),
           EvM("sm", <<3>>, TRUE), EvM("rm", <<3>>, TRUE) }
    [] Model = "C15seq" ->
         { Ev("ris", <<>>), Ev("cup", <<1, 3>>), Ev("ich", <<1>>), Ev("ri", <<>>), Ev("el", <<1>>), Ev("resize", <<1, 2>>), Ev("resize", <<3, 4>>),
           EvM("sm", <<3>>, TRUE), EvM("rm", <<3>>, TRUE), EvS("title", <<116>>), Ev("hts", <<>>), Ev("tbc", <<3>>), Ev("ht", <<>>), Ev("so", <<>>),
           Ev("dch", <<1>>), EvS("draw", <<120, 121, 122>>), Ev("display", <<>>), EvM("sm", <<5, 6>>, TRUE), Ev("decstbm", <<1, 2>>), Ev("sgr", <<7, 32>>) }
    [] Model = "C06seq" ->
         { Ev("ind", <<>>), Ev("ri", <<>>), Ev("lf", <<>>), Ev("il", <<1>>), Ev("dl", <<1>>), Ev("dl", <<2>>), Ev("decstbm", <<2, 3>>), Ev("decstbm", <<1, 2>>),
           Ev("decstbm", <<>>), EvM("sm", <<6>>, TRUE), EvM("rm", <<6>>, TRUE), Ev("cup", <<1, 1>>), Ev("cup", <<4, 2>>), Ev("cud", <<1>>), EvS("draw", <<120, 121, 122>>),
           Ev("display", <<>>) }

\* RIS models: every sequence contains exactly one RIS, in the middle
SeqOK(q) == Model = "C15seq" => (Len(q) >= 2 /\ Cardinality({ i \in 1..Len(q) : q[i].op = "ris" }) = 1 /\ q[1].op # "ris")

Run(c, l, h) == FoldLeft(Apply, Fresh(c, l), h)
\* the states along a sequence q from base b: element i is the state before q[i]
StatesOf(b, q) ==
  FoldLeft(LAMBDA acc, e : Append(acc, Apply(acc[Len(acc)], e)), << [Run(b.c, b.l, b.h) EXCEPT !.sc = 0] >>, q)

Init ==
  /\ base \in Bases
  /\ seq \in { q \in UNION { [1..k -> Alphabet] : k \in 1..MaxSeq } : SeqOK(q) }
  /\ sts = StatesOf(base, seq)
Next == UNCHANGED vars
Spec == Init /\ [][Next]_vars
States == sts

\* declarative reading of one step, by the property its operation belongs to
DeclStep(s, e, t) ==
  CASE e.op \in C05Ops -> Decl_C05(s, e, t)
    [] e.op \in C06Ops -> Decl_C06(s, e, t)
    [] e.op \in C07Ops -> Decl_C07(s, e, t)
    [] e.op \in C13Ops -> Decl_C13(s, e, t)
    [] e.op \in C14Ops -> Decl_C14(s, e, t)
    [] e.op = "ris"    -> Decl_C15(s, e, t)
    [] e.op = "resize" -> Decl_C16(s, e, t)
    [] e.op \in C18Ops -> Decl_C18(s, e, t)
    [] e.op \in {"sm", "rm"} /\ Len(e.p) = 1 -> Decl_C12_One(s, e, t)
    [] e.op = "draw" /\ Len(e.s) = 1 ->
         LET ch == Translate(ActiveTable(s), e.s[1]) IN Decl_C04_Char(s, ch, W(e.wm, ch), Comb(e.wm, ch), t)
    [] e.op = "display" -> t = s
    [] OTHER -> TRUE
StepsHold == \A i \in 1..Len(seq) : DeclStep(States[i], seq[i], States[i + 1]) /\ WellFormedCore(States[i + 1])

\* discarded characters never reappear: the bag of non-blank cell texts only shrinks under
\* anything but drawing (and DECALN, not in these alphabets)
Count(s, d) == Cardinality({ rc \in (1..s.L) \X (1..s.C) : s.g[rc[1]][rc[2]].d = d })
Texts(s) == { s.g[r][c].d : r \in 1..s.L, c \in 1..s.C } \ { <<32>> }
NoReappear ==
  \A i \in 1..Len(seq) :
     seq[i].op # "draw" => \A d \in Texts(States[i + 1]) : Count(States[i + 1], d) <= Count(States[i], d)

\* after RIS the state is that of a new screen of the current size, whatever came before
RisForgets ==
  \A i \in 1..Len(seq) :
     seq[i].op = "ris" =>
        Agree(States[i + 1], [Fresh(States[i].C, States[i].L) EXCEPT !.saves = States[i].saves], AllFields)

Emit == EmitVectors =>
  PrintT(<<"VEC", ToJson([C |-> base.c, L |-> base.l, setup |-> base.h, evs |-> seq])>>)
=============================================================================
