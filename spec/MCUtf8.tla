------------------------------- MODULE MCUtf8 -------------------------------
(* Bounded model of the streaming decoder (C11): all byte strings over one    *)
(* representative per byte class (plus byte-order-mark strings) up to MaxLen, *)
(* every placement of cuts into feed() calls.  Invariant: the incremental     *)
(* automaton with a carried tail yields exactly the position-based reference  *)
(* decoding of the concatenation - nothing dropped, duplicated or reordered.  *)
EXTENDS Utf8, Json, TLC

CONSTANTS MaxLen, EmitVectors

VARIABLES bs, cuts, sw, phase
vars == <<bs, cuts, sw, phase>>

\* 00-7F, 80-8F, 90-9F, A0-BF, C0-C1, C2-DF, E0, E1-EC, ED, EE-EF, F0, F1-F3, F4, F5-FF
Reps == {65, 133, 149, 176, 192, 195, 224, 226, 237, 238, 240, 241, 244, 245}
Strings(n) == UNION { [1..k -> Reps] : k \in 1..n }
BomStrings == { <<239, 187, 191>>, <<239, 187, 191, 65>>, <<65, 239, 187, 191>>, <<239, 187>>, <<239, 187, 191, 239, 187, 191>>,
                <<226, 158, 156>>, <<240, 159, 152, 128, 195, 169>> }

\* the chunks of q for a set of cut offsets (a cut at k separates q[k] from q[k+1])
RECURSIVE ChunksFrom(_, _, _)
ChunksFrom(q, cs, from) ==
  LET later == { c \in cs : c >= from } IN
  IF later = {} THEN << SubSeq(q, from, Len(q)) >>
  ELSE LET c == SetMin(later) IN << SubSeq(q, from, c) >> \o ChunksFrom(q, cs, c + 1)
Chunks(q, cs) == ChunksFrom(q, cs, 1)

\* streaming decode of a chunk sequence, then end of stream
Streamed(chs) ==
  LET fin == FoldLeft(LAMBDA acc, ch : LET d == DecodeCall(acc.pend, ch) IN [out |-> acc.out \o d.out, pend |-> d.pend],
                      [out |-> <<>>, pend |-> <<>>], chs)
  IN fin.out \o Flush(fin.pend)

Init ==
  /\ bs \in Strings(MaxLen) \cup BomStrings
  /\ cuts = {} /\ sw = 0 /\ phase = 0
Next ==
  /\ phase = 0 /\ phase' = 1
  /\ cuts' \in SUBSET (1..(Len(bs) - 1))
  \* mode switches between chunks: 2 = to 8-bit mode before the 2nd chunk; 3 = additionally back to
  \* UTF-8 before the 3rd chunk (a tail pending at the first switch must not survive the round trip)
  /\ sw' \in {0} \cup (IF Len(bs) >= 2 THEN {2} ELSE {}) \cup (IF Len(bs) >= 3 THEN {3} ELSE {})
  /\ UNCHANGED bs
Spec == Init /\ [][Next]_vars

StreamingEqualsWhole == phase = 1 => Streamed(Chunks(bs, cuts)) = DecodeWhole(bs)
\* every byte is accounted for: each output character stands for 1..4 input bytes, in order
NothingLost == phase = 1 => (Len(DecodeWhole(bs)) <= Len(bs) /\ Len(bs) <= 4 * Len(DecodeWhole(bs)))
\* well-formed input decodes without replacement characters and re-encodes to itself in length
Emit == (phase = 1 /\ EmitVectors /\ (sw = 0 \/ Len(Chunks(bs, cuts)) >= sw)) =>
          PrintT(<<"VEC", ToJson([chunks |-> Chunks(bs, cuts), sw |-> sw])>>)
=============================================================================
