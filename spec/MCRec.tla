------------------------------- MODULE MCRec -------------------------------
(* Bounded model of the recogniser (C03, C19).                                *)
(*  - BFS over input strings from the ground state, one character class at a *)
(*    time, with ground-state pruning (a string is not extended once the      *)
(*    recogniser is back in the ground state); the VIEW keeps one state per   *)
(*    edge (recogniser state before the last character, last character).      *)
(*  - Invariants: the operational machine (Recognizer!RStep) agrees with an   *)
(*    independent, position-based DECLARATIVE parse of the same string;       *)
(*    ground state => all collectors empty; the universal reset word          *)
(*    CAN BEL BEL returns to ground from every reachable state.               *)
(*  - Emit: one vector per explored edge (the whole string, fed to the real   *)
(*    Parser / ByteParser with a recording listener).                         *)
EXTENDS Recognizer, Json, TLC

CONSTANTS MaxLen, Utf8Mode, EmitVectors, Family

VARIABLES str, r, rprev, last
vars == <<str, r, rprev, last>>

-----------------------------------------------------------------------------
(* one representative of every character class the grammar distinguishes      *)
C0Exec   == {7, 8, 9, 10, 11, 12, 13}
Shifts   == {14, 15}
Aborts   == {24, 26}
Intro    == {27, 155, 157, 156}
OtherC0  == {0, 1, 127}
Digits   == {48, 49, 57}
Punct    == {59, 63, 36, 32, 62, 35, 37, 40, 41, 91, 93, 92}
CsiFinals == {64, 65, 66, 67, 68, 69, 70, 71, 72, 74, 75, 76, 77, 80, 88, 97, 99, 100, 101, 102, 103, 104, 108, 109, 114}
EscFinals == {99, 68, 69, 77, 72, 55, 56}
Unsupported == {115, 117, 110, 83, 84, 122}
OscCodes == {48, 49, 50, 51, 82, 112}
Printable == {120, 233, 19968}
Alphabet == C0Exec \cup Shifts \cup Aborts \cup Intro \cup OtherC0 \cup Digits \cup Punct \cup CsiFinals
            \cup EscFinals \cup Unsupported \cup OscCodes \cup Printable
\* while an OSC payload is being collected only these matter (all others behave like `x`)
OscAlphabet == {120, 59, 92, 93, 32, 233, 27, 7, 156, 1, 24, 10}
\* inside CSI, parameter characters keep the machine in the CSI state
Next1(rr) == IF rr.st \in {"oscp", "oscesc"} THEN OscAlphabet ELSE Alphabet

-----------------------------------------------------------------------------
(* DECLARATIVE parse: a second formulation of the documented grammar          *)
Ctl(op) == E(op, <<>>, <<>>, FALSE)
BasicEv(c) ==
  CASE c = 7 -> <<Ctl("bel")>> [] c = 8 -> <<Ctl("bs")>> [] c = 9 -> <<Ctl("ht")>>
    [] c \in {10, 11, 12} -> <<Ctl("lf")>> [] c = 13 -> <<Ctl("cr")>>
\* decimal value of a digit string with saturation at 9999: strip leading zeros;
\* more than four digits left means at least 10000
StripZeros(ds) == LET nz == { i \in 1..Len(ds) : ds[i] # 48 } IN
                  IF nz = {} THEN <<>> ELSE SubSeq(ds, SetMin(nz), Len(ds))
RECURSIVE DecVal(_)
DecVal(ds) == IF ds = <<>> THEN 0 ELSE DecVal(SubSeq(ds, 1, Len(ds) - 1)) * 10 + (ds[Len(ds)] - 48)
NumVal(ds) == LET t == StripZeros(ds) IN IF Len(t) > 4 THEN 9999 ELSE DecVal(t)
\* split the digit/semicolon skeleton of a CSI body at `;`
RECURSIVE SplitParams(_)
SplitParams(sk) ==
  LET semis == { i \in 1..Len(sk) : sk[i] = 59 } IN
  IF semis = {} THEN <<NumVal(sk)>>
  ELSE LET i == SetMin(semis) IN <<NumVal(SubSeq(sk, 1, i - 1))>> \o SplitParams(SubSeq(sk, i + 1, Len(sk)))

CsiBodyChar(c) == c = 63 \/ c \in {32, 62} \/ c \in C0Exec \/ (c >= 48 /\ c <= 57) \/ c = 59

RECURSIVE ParseAt(_, _, _), ParseCsi(_, _, _), ParseOsc(_, _, _), OscEnd(_, _)
\* first position j >= i at which the OSC payload ends: [pos, len of terminator], or <<0,0>> if unterminated.
\* ESC x pairs are atomic: ESC followed by `\` terminates, any other pair is payload.
OscEnd(s, i) ==
  IF i > Len(s) THEN <<0, 0>>
  ELSE IF s[i] \in {7, 156} THEN <<i, 1>>
  ELSE IF s[i] = 27 THEN
         IF i + 1 > Len(s) THEN <<0, 0>>
         ELSE IF s[i + 1] = 92 THEN <<i, 2>> ELSE OscEnd(s, i + 2)
  ELSE OscEnd(s, i + 1)
ParseOsc(s, i, utf8) ==      \* i = position of the code character
  IF i > Len(s) THEN <<>>
  ELSE IF s[i] \in {82, 112} THEN ParseAt(s, i + 1, utf8)
  ELSE LET e == OscEnd(s, i + 1) IN
       IF e[1] = 0 THEN <<>>                                  \* unterminated: nothing delivered yet
       ELSE LET payload == SubSeq(s, i + 1, e[1] - 1)
                text == IF payload = <<>> THEN <<>> ELSE Tail(payload) IN
            (IF s[i] \in {48, 49} THEN <<E("icon", <<>>, text, FALSE)>> ELSE <<>>)
            \o (IF s[i] \in {48, 50} THEN <<E("title", <<>>, text, FALSE)>> ELSE <<>>)
            \o ParseAt(s, e[1] + e[2], utf8)
ParseCsi(s, i, utf8) ==      \* i = first position after the introducer
  LET ends == { j \in i..Len(s) : ~CsiBodyChar(s[j]) } IN
  IF ends = {} THEN \* incomplete: only the embedded controls have been executed
       FoldLeft(LAMBDA acc, c : IF c \in C0Exec THEN acc \o BasicEv(c) ELSE acc, <<>>, SubSeq(s, i, Len(s)))
  ELSE LET j == SetMin(ends)
           body == SubSeq(s, i, j - 1)
           ctl  == FoldLeft(LAMBDA acc, c : IF c \in C0Exec THEN acc \o BasicEv(c) ELSE acc, <<>>, body)
           sk   == SelectSeq(body, LAMBDA c : (c >= 48 /\ c <= 57) \/ c = 59)
           priv == \E k \in 1..Len(body) : body[k] = 63
       IN IF s[j] \in {24, 26} THEN ctl \o <<E("draw", <<>>, <<s[j]>>, FALSE)>> \o ParseAt(s, j + 1, utf8)   \* aborted
          ELSE IF s[j] = 36 THEN ctl \o ParseAt(s, j + 2, utf8)                                          \* `$` + final skipped
          ELSE ctl \o CsiOp(s[j], SplitParams(sk), priv) \o ParseAt(s, j + 1, utf8)
ParseAt(s, i, utf8) ==
  IF i > Len(s) THEN <<>>
  ELSE LET c == s[i] IN
       IF c = 27 THEN
          IF i + 1 > Len(s) THEN <<>>
          ELSE LET n == s[i + 1] IN
               IF n = 91 THEN ParseCsi(s, i + 2, utf8)
               ELSE IF n = 93 THEN ParseOsc(s, i + 2, utf8)
               ELSE IF n = 35 THEN (IF i + 2 > Len(s) THEN <<>>
                                    ELSE (IF s[i + 2] = 56 THEN <<Ctl("decaln")>> ELSE <<>>) \o ParseAt(s, i + 3, utf8))
               ELSE IF n = 37 THEN ParseAt(s, i + 3, utf8)
               ELSE IF n \in {40, 41} THEN (IF i + 2 > Len(s) THEN <<>>
                                            ELSE (IF utf8 THEN <<>> ELSE <<E("charset", <<n>>, <<s[i + 2]>>, FALSE)>>)
                                                 \o ParseAt(s, i + 3, utf8))
               ELSE EscOp(n) \o ParseAt(s, i + 2, utf8)
       ELSE IF c = 155 THEN ParseCsi(s, i + 1, utf8)
       ELSE IF c = 157 THEN ParseOsc(s, i + 1, utf8)
       ELSE IF c \in C0Exec THEN BasicEv(c) \o ParseAt(s, i + 1, utf8)
       ELSE IF c \in {14, 15} THEN (IF utf8 THEN <<>> ELSE <<Ctl(IF c = 14 THEN "so" ELSE "si")>>) \o ParseAt(s, i + 1, utf8)
       ELSE <<E("draw", <<>>, <<c>>, FALSE)>> \o ParseAt(s, i + 1, utf8)
DeclParse(s, utf8) == ParseAt(s, 1, utf8)

-----------------------------------------------------------------------------
(* directed families: digit runs longer than any machine integer, every final *)
(* with typical parameter shapes, OSC strings over the payload alphabet       *)
DigitRun(n, d) == [i \in 1..n |-> d]
Directed ==
  { <<27, 91>> \o DigitRun(n, d) \o <<72>> : n \in {4, 5, 19, 20, 21, 40}, d \in {49, 57, 48} }
  \cup { <<27, 91>> \o DigitRun(n, 57) \o <<59>> \o DigitRun(n, 49) \o <<102>> : n \in {1, 5, 20} }
  \cup { pre \o body \o <<f>> : pre \in {<<27, 91>>, <<155>>},
                                 body \in { <<>>, <<53>>, <<53, 59, 49, 50>>, <<59>>, <<63, 53>>, <<53, 59>>, <<59, 59, 55>> },
                                 f \in CsiFinals \cup Unsupported }
\* parameter values around every width a parser might narrow to (8, 15/16, 24, 31/32, 40, 48, 53, 63/64, 96, 128 bits) and around the
\* cap: the documented value is min(n, 9999) whatever the digits (generated by hand from 2^k - 1, 2^k, 2^k + 5, ...)
PowDigits == { <<50, 53, 53>>, <<50, 53, 54>>, <<50, 53, 55>>, <<57, 57, 57, 56>>, <<57, 57, 57, 57>>, <<49, 48, 48, 48, 48>>, <<51, 50, 55, 54, 55>>, <<51, 50, 55, 54, 56>>, <<51, 50, 55, 55, 51>>, <<54, 53, 53, 51, 53>>, <<54, 53, 53, 51, 54>>, <<54, 53, 53, 52, 49>>, <<49, 54, 55, 55, 55, 50, 49, 57>>, <<50, 49, 52, 55, 52, 56, 51, 54, 52, 55>>, <<50, 49, 52, 55, 52, 56, 51, 54, 52, 56>>, <<50, 49, 52, 55, 52, 56, 51, 54, 53, 51>>, <<52, 50, 57, 52, 57, 54, 55, 50, 57, 53>>, <<52, 50, 57, 52, 57, 54, 55, 50, 57, 54>>, <<52, 50, 57, 52, 57, 54, 55, 51, 48, 49>>, <<52, 50, 57, 52, 57, 55, 55, 50, 57, 52>>, <<49, 50, 56, 56, 52, 57, 48, 49, 56, 57, 53>>, <<49, 48, 57, 57, 53, 49, 49, 54, 50, 55, 55, 55, 55>>, <<50, 56, 49, 52, 55, 52, 57, 55, 54, 55, 49, 48, 54, 53, 56>>, <<57, 48, 48, 55, 49, 57, 57, 50, 53, 52, 55, 52, 48, 57, 57, 51>>, <<57, 50, 50, 51, 51, 55, 50, 48, 51, 54, 56, 53, 52, 55, 55, 53, 56, 48, 55>>, <<57, 50, 50, 51, 51, 55, 50, 48, 51, 54, 56, 53, 52, 55, 55, 53, 56, 48, 56>>, <<57, 50, 50, 51, 51, 55, 50, 48, 51, 54, 56, 53, 52, 55, 55, 53, 56, 49, 51>>, <<49, 56, 52, 52, 54, 55, 52, 52, 48, 55, 51, 55, 48, 57, 53, 53, 49, 54, 49, 53>>, <<49, 56, 52, 52, 54, 55, 52, 52, 48, 55, 51, 55, 48, 57, 53, 53, 49, 54, 49, 54>>, <<49, 56, 52, 52, 54, 55, 52, 52, 48, 55, 51, 55, 48, 57, 53, 53, 49, 54, 50, 49>>, <<49, 56, 52, 52, 54, 55, 52, 52, 48, 55, 56, 48, 48, 52, 53, 49, 56, 57, 49, 55>>, <<49, 48, 48, 48, 48, 48, 48, 48, 48, 48, 48, 48, 48, 48, 48, 48, 48, 48, 48, 48>>, <<49, 48, 48, 48, 48, 48, 48, 48, 48, 48, 48, 48, 48, 48, 48, 48, 48, 48, 48, 48, 53>>, <<55, 57, 50, 50, 56, 49, 54, 50, 53, 49, 52, 50, 54, 52, 51, 51, 55, 53, 57, 51, 53, 52, 51, 57, 53, 48, 51, 52, 49>>, <<51, 52, 48, 50, 56, 50, 51, 54, 54, 57, 50, 48, 57, 51, 56, 52, 54, 51, 52, 54, 51, 51, 55, 52, 54, 48, 55, 52, 51, 49, 55, 54, 56, 50, 49, 49, 52, 54, 49>> }
PowParams ==
  { <<27, 91>> \o d \o <<f>> : d \in PowDigits, f \in {72, 109, 65} }
  \cup { <<27, 91, 53, 59>> \o d \o <<72>> : d \in PowDigits }
  \cup { <<155, 63>> \o d \o <<108>> : d \in PowDigits }
\* long inputs: many parameters, zero-padded numbers, long payloads (buffer-size assumptions)
ManyParams(n, fin) == <<27, 91>> \o FoldLeft(LAMBDA acc, i : acc \o (IF i > 1 THEN <<59>> ELSE <<>>) \o <<48 + (i % 10)>>, <<>>, [i \in 1..n |-> i]) \o <<fin>>
LongOnes ==
  { ManyParams(n, f) : n \in {5, 16, 17, 32, 33, 64}, f \in {109, 72, 104, 114} }
  \cup { <<27, 91>> \o DigitRun(n, 48) \o <<d>> \o <<59>> \o DigitRun(n, 48) \o <<49, 48>> \o <<f>> : n \in {1, 4, 5, 30}, d \in {53, 57}, f \in {72, 102} }
  \cup { <<27, 93, 50, 59>> \o [i \in 1..n |-> 97 + (i % 26)] \o <<7>> : n \in {63, 64, 65, 255, 256, 257, 1100} }
  \cup { <<27, 91>> \o [i \in 1..n |-> 59] \o <<72>> : n \in {1, 2, 3, 20} }
  \cup { <<27, 91>> \o [i \in 1..n |-> 32] \o <<53, 65>> : n \in {1, 40} }

OscPayloads ==
  { <<>>, <<59>>, <<59, 120>>, <<59, 120, 59, 121>>, <<59, 92, 120>>, <<59, 93, 32, 233>>, <<59, 27, 120, 121>>,
    <<59, 1, 120>>, <<59, 19968, 27, 93>>, <<59, 59>>, <<59, 59, 120>>, <<59, 120, 27, 27, 121>>, <<59, 24, 120>>,
    <<59, 32, 120, 32>>, <<59, 120, 59>> }
\* (payloads that do not start with `;` are outside the statement of C19 and are not generated)
OscStrings ==
  { intro \o <<code>> \o pay \o term \o <<122>> :
      intro \in {<<27, 93>>, <<157>>}, code \in {48, 49, 50, 51, 57, 97},
      pay \in OscPayloads, term \in {<<7>>, <<156>>, <<27, 92>>} }

\* long payloads (buffer-size / length-type assumptions), every code, introducer and terminator; a `;`, a backslash and a
\* non-ASCII character sit near the end so that a cut or a truncation shows
OscLong ==
  { intro \o <<code, 59>> \o [i \in 1..n |-> IF i = n - 2 THEN 59 ELSE IF i = n - 1 THEN 92 ELSE IF i = n THEN 233 ELSE 97 + (i % 26)] \o term \o <<122>> :
      intro \in {<<27, 93>>, <<157>>}, code \in {48, 49, 50}, term \in {<<7>>, <<156>>, <<27, 92>>},
      n \in {31, 32, 33, 63, 64, 65, 127, 128, 129, 255, 256, 257, 511, 512, 513, 1023, 1024, 1025, 2049, 4097} }

\* pairs of complete sequences: state left behind by the first (collected parameters, the
\* private flag, an OSC payload, a pending designator) must not leak into the second
FirstSeqs ==
  { <<27, 91>> \o body \o fin : body \in { <<55, 59, 57>>, <<63, 55, 59, 57>>, <<55, 59>>, <<63, 53>>, <<49, 50, 59, 49, 51, 59, 52>> },
                                  fin \in { <<24>>, <<26>>, <<36, 120>>, <<122>>, <<72>>, <<27>>, <<104>>, <<109>> } }
  \cup { <<27, 93, 48, 59, 97, 98, 99, 7>>, <<27, 93, 49, 59, 120, 27, 92>>, <<157, 50, 59, 121, 156>>, <<27, 93, 82>>,
         <<27, 40, 66>>, <<27, 41, 48>>, <<27, 35, 56>>, <<27, 37, 71>>, <<27, 55>>, <<14>>, <<27, 91, 7, 53, 10, 59, 72>> }
SecondSeqs ==
  { <<27, 91, 50, 72>>, <<27, 91, 72>>, <<155, 59, 51, 102>>, <<27, 91, 53, 109>>, <<27, 91, 50, 53, 104>>, <<27, 91, 63, 50, 53, 108>>,
    <<27, 91, 114>>, <<27, 91, 59, 51, 114>>, <<27, 93, 50, 59, 120, 7>>, <<27, 93, 49, 7>>, <<27, 91, 36, 120, 120>>, <<27, 91, 51, 24, 120>>,
    <<120, 15, 121>>, <<27, 91, 49, 59, 50, 59, 51, 109>> }
Pairs == { a \o b : a \in FirstSeqs, b \in SecondSeqs }
Triples == { a \o b \o c : a \in FirstSeqs, b \in {<<27, 91, 51, 24>>, <<27, 91, 52, 59, 36, 112>>, <<120>>}, c \in SecondSeqs }

\* systematic OSC payloads: every sequence of up to MaxLen units after the separator, over one representative per
\* class (letter, `;`, backslash, `]`, space, non-ASCII, an ESC x pair, a C0 control other than BEL)
OscUnits == { <<120>>, <<59>>, <<92>>, <<93>>, <<32>>, <<233>>, <<27, 120>>, <<1>> }
\* (parametrised: TLC evaluates parameterless constant definitions eagerly, whichever family is selected)
OscBodies(n) == UNION { { FoldLeft(LAMBDA acc, u : acc \o u, <<59>>, q) : q \in [1..k -> OscUnits] } : k \in 0..n }
OscSystematic(n) ==
  { intro \o <<code>> \o body \o term \o <<122>> :
      intro \in {<<27, 93>>, <<157>>}, code \in {48, 49, 50, 51}, body \in OscBodies(n), term \in {<<7>>, <<156>>, <<27, 92>>} }

Seeds == CASE Family = "graph"    -> {<<>>}
           [] Family = "oscx"     -> OscSystematic(MaxLen)
           [] Family = "pairs"    -> Pairs \cup Triples
           [] Family = "directed" -> Directed \cup LongOnes \cup PowParams
           [] Family = "osc"      -> OscStrings \cup OscLong

-----------------------------------------------------------------------------
Init ==
  /\ \E s \in Seeds : str = s /\ r = RFeed(Ground, s, Utf8Mode).r
  /\ rprev = Ground
  /\ last = -1

Next ==
  /\ Family = "graph"
  /\ Len(str) < MaxLen
  /\ (str = <<>> \/ r.st # "ground")                     \* ground-state pruning
  /\ \E ch \in Next1(r) :
        /\ str' = Append(str, ch)
        /\ rprev' = r
        /\ last' = ch
        /\ r' = RStep(r, ch, Utf8Mode).r

Spec == Init /\ [][Next]_vars
View == <<rprev, last, IF Family = "graph" THEN <<>> ELSE str>>

\* operational machine = declarative parse, on every explored string
Agrees == NormEvents(RFeed(Ground, str, Utf8Mode).evs) = NormEvents(DeclParse(str, Utf8Mode))
\* back in the ground state all collectors are empty
GroundClean == r.st = "ground" => r = Ground
\* the universal reset word
ResetWord == RFeed(r, <<24, 7, 7>>, Utf8Mode).r = Ground
\* a complete sequence leaves the recogniser in the ground state (directed families are complete)
Complete == Family # "graph" => r = Ground

Emit == (EmitVectors /\ str # <<>>) => PrintT(<<"VEC", ToJson([s |-> str, utf8 |-> Utf8Mode])>>)
=============================================================================
