------------------------------ MODULE MCReach ------------------------------
(* Reachability model (C09): every interleaving of operations, parameters and  *)
(* resizes on tiny geometries, explored breadth-first.  The VIEW keeps what    *)
(* well-formedness depends on (geometry, cursor, margins, modes, stack shape,  *)
(* staleness of the dirty set, tab stops); grid CONTENT is abstracted away -   *)
(* no operation's effect on those components depends on it.                    *)
(* Invariants: WellFormed (cursor, margins, dirty, shape) and the derived      *)
(* invariant "origin mode with a region confines the cursor to the region".    *)
(* Emit: one vector per explored edge (BFS path + last event).                 *)
EXTENDS Props, Json

CONSTANTS MaxC, MaxL, Depth, EmitVectors

VARIABLES s, h, c0, l0
vars == <<s, h, c0, l0>>

WmR == << <<19968, 2, 0>> >>
Ev(op, p)      == [op |-> op, p |-> p, s |-> <<>>, pr |-> FALSE, wm |-> <<>>]
EvM(op, p, pr) == [op |-> op, p |-> p, s |-> <<>>, pr |-> pr, wm |-> <<>>]
EvS(op, t)     == [op |-> op, p |-> <<>>, s |-> t, pr |-> FALSE, wm |-> WmR]

Par(n) == {-1, 0, 1, n, n + 1, 9999}
Alphabet(t) ==
  { Ev(op, <<n>>) : op \in {"cuu", "cud", "cnl", "cpl", "vpa", "il", "dl"}, n \in Par(t.L) }
  \cup { Ev(op, <<n>>) : op \in {"cuf", "cub", "cha", "ich", "dch", "ech"}, n \in Par(t.C) }
  \cup { Ev("cup", <<a, b>>) : a \in {-1, 1, t.L, 9999}, b \in {-1, 1, t.C, 9999} }
  \cup { Ev("decstbm", <<a, b>>) : a \in {-1, 0} \cup 1..t.L, b \in {-1} \cup 1..(t.L + 1) }
  \cup { EvM(op, <<m>>, TRUE) : op \in {"sm", "rm"}, m \in {6, 7} }
  \cup { EvM(op, <<4>>, FALSE) : op \in {"sm", "rm"} }
  \cup { Ev(op, <<>>) : op \in {"decsc", "decrc", "ind", "lf", "ri", "ris", "ht", "hts", "bs", "cr", "decaln"} }
  \cup { Ev("ed", <<n>>) : n \in {0, 1, 2} } \cup { Ev("el", <<n>>) : n \in {0, 1, 2} } \cup { Ev("tbc", <<n>>) : n \in {0, 3} }
  \cup { EvS("draw", t2) : t2 \in { <<120>>, <<19968>>, <<120, 121, 122>> } }
  \cup { Ev("resize", <<a, b>>) : a \in 1..MaxL, b \in 1..MaxC }

Init ==
  /\ c0 \in 1..MaxC /\ l0 \in 1..MaxL
  /\ s = Fresh(c0, l0)
  /\ h = <<>>
Next ==
  /\ Len(h) < Depth
  /\ \E e \in Alphabet(s) : s' = [Apply(s, e) EXCEPT !.sc = 0] /\ h' = Append(h, e)
  /\ UNCHANGED <<c0, l0>>
Spec == Init /\ [][Next]_vars

\* what well-formedness can depend on (grid content, rendition, titles left out)
View == << s.L, s.C, s.x, s.y, s.mar, s.modes, s.tabs, s.dirty \ (0..(s.L - 1)),
           [i \in 1..Len(s.saves) |-> <<s.saves[i].x, s.saves[i].y, s.saves[i].origin, s.saves[i].wrap>>] >>
StackBound == Len(s.saves) <= 1

WellFormedInv == WellFormedCore(s) /\ DirtyOK(s)
OriginConfined == (DECOM \in s.modes /\ s.mar # <<>>) => (s.mar[1] <= s.y /\ s.y <= s.mar[2])
Emit == (EmitVectors /\ h # <<>>) =>
          PrintT(<<"VEC", ToJson([C |-> c0, L |-> l0, setup |-> SubSeq(h, 1, Len(h) - 1), ev |-> h[Len(h)]])>>)
=============================================================================
