--------------------------------- MODULE MC ---------------------------------
(* Bounded models whose STATES ARE TRANSITIONS of the screen specification.   *)
(*   Init  picks a pre-state from a parametrised family; every member is      *)
(*         built by folding the specification's own operators over a setup   *)
(*         history, so it is reachable by construction and the history can   *)
(*         be replayed on the implementation;                                *)
(*   Next  applies one operation with one parameter from the property's       *)
(*         domain;                                                           *)
(*   Holds (INVARIANT) is the declarative reading of the property (Decl.tla)  *)
(*         evaluated on that transition: Spec |= P;                           *)
(*   Emit  (INVARIANT) prints one JSON vector per transition for replay on    *)
(*         the real code (specification -> implementation).                   *)
(* CONSTANT Model selects the family, Geoms the geometries <<columns,lines>>. *)
EXTENDS Decl, Json

CONSTANTS Model, Geoms, EmitVectors, TextLen, SgrMax, ModeMax

VARIABLES setup, pre, ev, post, phase
vars == <<setup, pre, ev, post, phase>>

-----------------------------------------------------------------------------
(* width facts of the model's sample alphabet (confirmed by the harness on    *)
(* replay: the tap logs the real widths)                                      *)
WIDE == 19968   COMB == 822   ZWSP == 8203   NARROW2 == 1078
VS16 == 65039     \* variation selector-16: combining; with an emoji-capable narrow symbol the CLUSTER is wide, its first character is not
WmModel == << <<WIDE, 2, 0>>, <<COMB, 0, 1>>, <<ZWSP, 0, 0>>, <<VS16, 0, 1>> >>

Ev(op, p)      == [op |-> op, p |-> p, s |-> <<>>, pr |-> FALSE, wm |-> <<>>]
EvM(op, p, pr) == [op |-> op, p |-> p, s |-> <<>>, pr |-> pr, wm |-> <<>>]
EvS(op, s)     == [op |-> op, p |-> <<>>, s |-> s, pr |-> FALSE, wm |-> WmModel]
NoEv == Ev("none", <<>>)

Run(c, l, h) == FoldLeft(Apply, Fresh(c, l), h)

\* parameter classes {absent, 0, 1, .., size+2, 9999}
Params(size) == {-1, 9999} \cup 0..(size + 2)

\* every region of an l-line screen, and none
Regions(l) == {<<>>} \cup { q \in (0..(l - 1)) \X (0..(l - 1)) : q[1] < q[2] }

\* distinct marker in every cell: row r gets letters starting at 97 + r*C, and
\* every row its own colour so that a misplaced row or cell is visible
RowColour(r) == 31 + (r % 6)
FillRow(c, r) == << Ev("cup", <<r + 1, 1>>), Ev("sgr", <<RowColour(r)>>),
                    EvS("draw", [k \in 1..c |-> 97 + ((r * c + k - 1) % 26)]) >>
RECURSIVE FillRows(_, _)
FillRows(c, rows) ==     \* rows: a sequence of row indices to fill
  IF rows = <<>> THEN <<>> ELSE FillRow(c, Head(rows)) \o FillRows(c, Tail(rows))
AllRowsSeq(l) == [i \in 1..l |-> i - 1]
Fill(c, l) == FillRows(c, AllRowsSeq(l)) \o << Ev("sgr", <<0>>) >>
\* a filled grid with a double-width pair in row 0 and (when there is room) an orphaned
\* placeholder in row 1 (the lead of a wide character overwritten by a narrow one)
FillWide(c, l) ==
  Fill(c, l) \o << Ev("cup", <<1, 1>>), EvS("draw", <<WIDE>>) >>
  \o (IF l >= 2 /\ c >= 2 THEN << Ev("cup", <<2, 1>>), EvS("draw", <<WIDE>>), Ev("cup", <<2, 1>>), EvS("draw", <<113>>) >> ELSE <<>>)
\* edits of the tab stops at representative columns (C18w)
TabEdits(c) == { <<>>, <<Ev("tbc", <<3>>)>>, <<Ev("cha", <<9>>), Ev("tbc", <<0>>)>>, <<Ev("cha", <<c>>), Ev("hts", <<>>)>>,
                 <<Ev("cha", <<4>>), Ev("hts", <<>>)>>, <<Ev("cha", <<c - 1>>), Ev("hts", <<>>)>>, <<Ev("cha", <<17>>), Ev("tbc", <<>>)>> }
ColsOfInterest(c) == { x \in 0..(c + 8) : (c <= 20 /\ x <= 20) \/ x % 16 \in {0, 7, 8} \/ (x >= c - 2 /\ x <= c) }

\* operations between saves and restores (C14)
SaveOps == { <<>>, <<Ev("decsc", <<>>)>>, <<Ev("cup", <<2, 2>>), Ev("sgr", <<1, 31>>)>>, <<Ev("cud", <<9>>), Ev("cuf", <<9>>), EvS("draw", <<113>>)>>,
             <<Ev("so", <<>>), [Ev("charset", <<40>>) EXCEPT !.s = <<85>>]>>, <<EvM("sm", <<6>>, TRUE), EvM("rm", <<7, 25>>, TRUE)>>,
             <<Ev("decstbm", <<1, 2>>)>>, <<Ev("resize", <<2, 2>>)>>, <<Ev("decrc", <<>>)>> }
\* only the even rows written: the others stay never-written (sparse)
FillSparse(c, l) == FillRows(c, SelectSeq(AllRowsSeq(l), LAMBDA r : r % 2 = 0)) \o << Ev("sgr", <<0>>) >>

\* place the cursor at (y, x) for a state with region mar and origin mode dec; x = c is the
\* pending-wrap column, which is only reachable by drawing into the last column
PlaceWrap(c, mar, dec, y, x, glyph) ==
  LET row == IF dec /\ mar # <<>> THEN y - mar[1] + 1 ELSE y + 1 IN
  IF x < c THEN << Ev("cup", <<row, x + 1>>) >>
  ELSE << Ev("cup", <<row, c>>), EvS("draw", <<glyph>>) >>

SetRegion(mar) == IF mar = <<>> THEN <<>> ELSE << Ev("decstbm", <<mar[1] + 1, mar[2] + 1>>) >>
SetOrigin(dec) == IF dec THEN << EvM("sm", <<6>>, TRUE) >> ELSE <<>>

-----------------------------------------------------------------------------
(* families: sets of records [c, l, h] (geometry and setup history)           *)
Families ==
  CASE Model \in {"C05", "C18"} ->
         UNION { { [c |-> g[1], l |-> g[2],
                   h |-> SetRegion(m) \o SetOrigin(d) \o PlaceWrap(g[1], m, d, y, x, 122)] :
                   m \in Regions(g[2]), d \in BOOLEAN,
                   y \in 0..(g[2] - 1), x \in 0..g[1] } : g \in Geoms }
    [] Model = "C04sweep" ->
         \* class-member sweep for drawing: every code point of SweepChars drawn once, at a free position, at the
         \* pending-wrap column, in insert mode, with autowrap off (widths are facts logged by the harness at replay)
         UNION { { [c |-> g[1], l |-> g[2], h |-> Fill(g[1], g[2]) \o mm \o PlaceWrap(g[1], <<>>, FALSE, 0, x, 122)] :
                   mm \in { <<>>, <<EvM("sm", <<4>>, FALSE)>>, <<EvM("rm", <<7>>, TRUE)>> }, x \in {1, g[1]} } : g \in Geoms }
    [] Model = "Phuge" ->
         \* a screen with more columns (lines) than 16 bits can count, parameters around 2^16: a count, a column or a row
         \* narrowed to 16 bits shows here and nowhere else inside the documented parameter range (API port only - the
         \* parser caps parameters at 9999)
         UNION { { [c |-> g[1], l |-> g[2], h |-> << EvS("draw", <<97, 98, 99>>), Ev("cup", <<y + 1, x + 1>>), Ev("sgr", <<44>>) >>] :
                   x \in IF g[1] = 1 THEN {0} ELSE {1, g[1] - 3}, y \in IF g[2] = 1 THEN {0} ELSE {1, g[2] - 3} } : g \in Geoms }
    [] Model = "Psweep" ->
         \* parameter sweep on a 300-column and a 300-line screen: values around every power of two up to 4096 and the
         \* extremes, from both ends - a truncated or mis-clamped parameter shows where small screens clamp it away
         UNION { { [c |-> g[1], l |-> g[2], h |-> << EvS("draw", <<113>>), Ev("cup", <<y + 1, x + 1>>) >>] :
                   x \in {0, g[1] - 1}, y \in {0, g[2] - 1} } : g \in Geoms }
    [] Model = "C18all" ->
         \* every width 1..140 with its power-on stops, cursor at every column incl. pending wrap
         UNION { { [c |-> g[1], l |-> g[2], h |-> PlaceWrap(g[1], <<>>, FALSE, 0, x, 122)] : x \in 0..g[1] } : g \in Geoms }
    [] Model = "C18w" ->
         \* widths up to 140, default stops edited by HTS / TBC at representative columns, then a width change
         UNION { { [c |-> g[1], l |-> g[2],
                   h |-> e1 \o e2 \o rz \o <<Ev("cha", <<x + 1>>)>>] :
                   e1 \in TabEdits(g[1]), e2 \in { <<>>, <<Ev("cha", <<g[1] - 3>>), Ev("hts", <<>>)>> },
                   rz \in { <<>>, <<Ev("resize", <<-1, Max2(1, g[1] - 7)>>)>>, <<Ev("resize", <<-1, g[1] + 9>>)>>,
                            <<EvM("sm", <<3>>, TRUE)>>, <<EvM("sm", <<3>>, TRUE), EvM("rm", <<3>>, TRUE)>>,
                            \* an edit AFTER the width change (stops beyond the right edge are still in the set then)
                            <<Ev("resize", <<-1, Max2(1, g[1] - 7)>>), Ev("cha", <<9>>), Ev("tbc", <<0>>)>>,
                            <<Ev("resize", <<-1, Max2(1, g[1] - 7)>>), Ev("cha", <<4>>), Ev("hts", <<>>)>> },
                   x \in ColsOfInterest(g[1]) } : g \in Geoms }
    [] Model \in {"C06", "C07", "C13"} ->
         UNION { { [c |-> g[1], l |-> g[2],
                   h |-> (IF sparse THEN FillSparse(g[1], g[2]) ELSE Fill(g[1], g[2])) \o rend
                         \o SetRegion(m) \o SetOrigin(d) \o PlaceWrap(g[1], m, d, y, x, 122)] :
                   m \in Regions(g[2]), d \in BOOLEAN, sparse \in BOOLEAN,
                   \* the current rendition and reverse-video mode decide what erased / inserted blanks look like
                   \* (C06 also: a row of explicit plain blanks under reverse video - they differ from never-written cells there)
                   rend \in (IF Model = "C06" THEN { <<Ev("sgr", <<44, 1>>)>>, <<EvM("sm", <<5>>, TRUE), Ev("sgr", <<27>>)>> }
                             ELSE { <<Ev("sgr", <<44, 1>>)>>, <<>>, <<EvM("sm", <<5>>, TRUE)>>, <<EvM("sm", <<5>>, TRUE), Ev("sgr", <<27>>)>>,
                                    <<Ev("sgr", <<7, 4>>)>> }),
                   y \in 0..(g[2] - 1), x \in {0, g[1] \div 2, g[1] - 1, g[1]} } : g \in Geoms }
         \cup (IF Model # "C06" THEN {} ELSE
               UNION { { [c |-> g[1], l |-> g[2],
                          h |-> Fill(g[1], g[2]) \o <<EvM("sm", <<5>>, TRUE), Ev("sgr", <<27>>), Ev("cup", <<2, 1>>), Ev("el", <<2>>), Ev("cup", <<1, 1>>), Ev("ech", <<1>>)>>
                                \o SetRegion(m) \o PlaceWrap(g[1], m, FALSE, y, 0, 122)] :
                          m \in Regions(g[2]), y \in 0..(g[2] - 1) } : g \in Geoms })
    [] Model = "C08" ->
         { [c |-> 2, l |-> 1, h |-> hh] :
           hh \in { <<>>, <<Ev("sgr", <<1, 31, 44>>)>>, <<Ev("sgr", <<3, 4, 5, 7, 9, 97, 107>>)>>,
                    <<EvM("sm", <<5>>, TRUE)>>, <<EvM("sm", <<5>>, TRUE), Ev("sgr", <<27, 38, 5, 200>>)>>,
                    <<Ev("sgr", <<38, 2, 1, 2, 3, 48, 5, 17>>)>> } }
    [] Model = "C16" ->
         UNION { { [c |-> g[1], l |-> g[2],
                   h |-> (IF sparse THEN FillSparse(g[1], g[2]) ELSE Fill(g[1], g[2]))
                         \o SetRegion(m) \o SetOrigin(d) \o PlaceWrap(g[1], m, d, y, x, 122)] :
                   m \in Regions(g[2]), d \in BOOLEAN, sparse \in BOOLEAN,
                   y \in 0..(g[2] - 1), x \in {0, g[1] - 1, g[1]} } : g \in Geoms }
    [] Model = "C04" ->
         UNION { { [c |-> g[1], l |-> g[2],
                   h |-> (CASE v = 0 -> Fill(g[1], g[2]) [] v = 1 -> FillSparse(g[1], g[2]) [] v = 2 -> FillWide(g[1], g[2])
                                [] v = 3 -> FillWide(g[1], g[2]) \o << Ev("cup", <<1, 1>>), Ev("dch", <<1>>) >>)   \* the placeholder half now in column 0
                         \o <<Ev("sgr", <<35, 4>>)>> \o mm \o SetRegion(m) \o PlaceWrap(g[1], m, FALSE, y, x, 122)] :
                   v \in 0..3, m \in {<<>>} \cup (IF g[2] >= 3 THEN {<<0, 1>>, <<1, 2>>} ELSE IF g[2] = 2 THEN {<<0, 1>>} ELSE {}),
                   mm \in { <<>>, <<EvM("rm", <<7>>, TRUE)>>, <<EvM("sm", <<4>>, FALSE)>>,
                            <<EvM("rm", <<7>>, TRUE), EvM("sm", <<4>>, FALSE)>>, <<EvM("sm", <<20>>, FALSE)>> },
                   y \in 0..(g[2] - 1), x \in 0..g[1] } : g \in Geoms }
    [] Model = "C12" ->
         UNION { { [c |-> g[1], l |-> g[2], h |-> Fill(g[1], g[2]) \o hh \o <<Ev("cup", <<g[2], 2>>)>>] :
                   hh \in { <<>>, <<Ev("sgr", <<1, 32, 45>>)>>,
                            <<Ev("decstbm", <<2, 3>>)>>, <<Ev("decstbm", <<1, 2>>), EvM("sm", <<6>>, TRUE)>>,
                            <<EvM("sm", <<5>>, TRUE), Ev("sgr", <<27>>)>>, <<EvM("sm", <<3>>, TRUE), EvS("draw", <<113, 114>>)>>,
                            <<EvM("rm", <<25, 7>>, TRUE), EvM("sm", <<4, 20>>, FALSE)>>,
                            \* the remembered DECCOLM width in its combinations with the mode flag and the current width
                            <<EvM("sm", <<3>>, TRUE), Ev("resize", <<-1, 5>>)>>,
                            <<EvM("sm", <<3>>, TRUE), Ev("resize", <<-1, 5>>), EvM("rm", <<3>>, TRUE)>>,
                            <<EvM("sm", <<3>>, TRUE), Ev("resize", <<-1, 5>>), EvM("rm", <<3>>, TRUE), Ev("resize", <<-1, 132>>)>>,
                            <<EvM("sm", <<3>>, TRUE), Ev("cup", <<1, 100>>), Ev("decsc", <<>>), EvM("rm", <<3>>, TRUE)>> } } : g \in Geoms }
    [] Model = "C14" ->
         UNION { { [c |-> g[1], l |-> g[2], h |-> Fill(g[1], g[2]) \o a \o b \o cc] :
                   a \in SaveOps, b \in SaveOps, cc \in SaveOps } : g \in Geoms }
    [] Model = "C20" ->
         { [c |-> 3, l |-> 1, h |-> d0 \o d1 \o sh] :
           d0 \in { <<[Ev("charset", <<40>>) EXCEPT !.s = <<k>>]>> : k \in {66, 48, 85, 86} },
           d1 \in { <<[Ev("charset", <<41>>) EXCEPT !.s = <<k>>]>> : k \in {66, 48, 85, 86} },
           sh \in { <<>>, <<Ev("so", <<>>)>>, <<Ev("so", <<>>), Ev("si", <<>>)>> } }
    [] Model = "C10" ->
         UNION { { [c |-> g[1], l |-> g[2], h |-> base \o hh] :
                   base \in { <<>>, Fill(g[1], g[2]), FillSparse(g[1], g[2]), FillWide(g[1], g[2]) },
                   hh \in { <<>>, <<Ev("cup", <<1, g[1]>>), EvS("draw", <<WIDE>>)>>,
                            <<Ev("cup", <<1, 1>>), EvS("draw", <<WIDE, COMB, 120, COMB, COMB>>)>>,
                            <<Ev("cup", <<1, 1>>), EvS("draw", <<9786, VS16, 120, 121>>)>>,
                            <<Ev("cup", <<1, 1>>), EvS("draw", <<WIDE>>), Ev("cup", <<1, 1>>), EvS("draw", <<113>>)>>,
                            <<Ev("cup", <<1, 1>>), EvS("draw", <<WIDE>>), Ev("cup", <<1, 2>>), EvS("draw", <<113>>)>>,
                            <<Ev("cup", <<1, 1>>), EvS("draw", <<WIDE>>), Ev("cup", <<1, 1>>), Ev("dch", <<1>>)>>,
                            <<Ev("cup", <<1, 1>>), EvS("draw", <<WIDE>>), Ev("cup", <<1, 1>>), Ev("ich", <<1>>)>>,
                            <<Ev("decaln", <<>>)>>, <<EvM("sm", <<5>>, TRUE), Ev("ed", <<2>>)>> } } : g \in Geoms }
    [] Model = "C15" ->
         UNION { { [c |-> g[1], l |-> g[2], h |-> Fill(g[1], g[2]) \o hh] :
                   hh \in { <<>>,
                            <<Ev("sgr", <<1, 31>>), Ev("decstbm", <<1, 2>>), EvM("sm", <<6, 5>>, TRUE), EvM("sm", <<4, 20>>, FALSE)>>,
                            <<EvS("title", <<116>>), EvS("icon", <<105>>), Ev("so", <<>>), [Ev("charset", <<40>>) EXCEPT !.s = <<85>>]>>,
                            <<Ev("hts", <<>>), Ev("tbc", <<3>>), Ev("decsc", <<>>), EvM("rm", <<25, 7>>, TRUE)>>,
                            <<Ev("cup", <<1, g[1]>>), Ev("ich", <<1>>), Ev("ri", <<>>), Ev("el", <<1>>)>>,
                            <<EvM("sm", <<3>>, TRUE)>>,
                            \* the remembered DECCOLM width in each of its combinations with the mode flag and the current width
                            <<EvM("sm", <<3>>, TRUE), Ev("resize", <<-1, 5>>)>>,
                            <<EvM("sm", <<3>>, TRUE), Ev("resize", <<-1, 5>>), EvM("rm", <<3>>, TRUE)>>,
                            <<EvM("sm", <<3>>, TRUE), Ev("resize", <<-1, 5>>), EvM("rm", <<3>>, TRUE), Ev("resize", <<-1, 132>>)>>,
                            <<EvM("sm", <<3>>, TRUE), EvM("rm", <<3>>, TRUE), Ev("decsc", <<>>), Ev("decsc", <<>>)>>,
                            <<EvM("sm", <<3>>, TRUE), EvM("sm", <<3>>, TRUE)>> } } : g \in Geoms }

\* reachable members only (DECOM with a region confines the cursor to the region)
MemberOK(f) == WellFormedCore(Run(f.c, f.l, f.h))

\* geometry sets <<columns, lines>>
GTiny  == { <<1, 1>>, <<2, 1>>, <<1, 2>>, <<2, 2>>, <<3, 2>>, <<2, 3>> }
GSmall == { <<3, 3>>, <<4, 3>> }
GMore  == { <<5, 4>>, <<8, 5>> }
GOne   == { <<3, 2>>, <<2, 3>> }
GQuick == GTiny \cup GSmall
GThorough == GTiny \cup GSmall \cup GMore
GRows  == { <<3, 1>>, <<3, 2>>, <<3, 3>>, <<3, 4>>, <<2, 5>> }
GRowsQuick == { <<3, 1>>, <<3, 2>>, <<3, 3>>, <<2, 4>> }
GWide  == { <<9, 1>>, <<17, 1>>, <<20, 2>>, <<80, 1>>, <<132, 1>>, <<140, 1>> }
GColm  == { <<132, 1>>, <<133, 1>>, <<200, 2>> }    \* at and beyond the DECCOLM width
GHuge  == { <<65537, 1>> }    \* (a 65537-LINE screen makes the trace validator's per-row set operations take tens of minutes: not explored)
GLong  == { <<300, 1>>, <<1, 300>> }
GAllW  == { <<w, 1>> : w \in (1..140) \cup {255, 256, 257, 264, 265, 300} }
GAllWQuick == { <<w, 1>> : w \in {1, 2, 7, 8, 9, 10, 15, 16, 17, 24, 25, 33, 40, 64, 65, 80, 81, 100, 132, 133, 139, 140, 256, 257, 265} }
GWideQuick == { <<9, 1>>, <<20, 1>>, <<80, 1>> }
GCols  == { <<1, 2>>, <<2, 2>>, <<3, 2>>, <<4, 2>>, <<5, 2>>, <<6, 2>> }

-----------------------------------------------------------------------------
(* events of each model                                                      *)
\* texts over one representative per character class (C04)
Alphabet == {120, WIDE, COMB, ZWSP, 0, 127, NARROW2}
Texts == { <<a>> : a \in Alphabet } \cup { <<a, b>> : a \in Alphabet, b \in Alphabet }
         \cup (IF TextLen >= 3 THEN { <<a, b, c>> : a \in Alphabet, b \in Alphabet, c \in {120, WIDE, COMB} } ELSE {})
ModeNumbers == (0..ModeMax) \cup {96, 160, 192, 224, 800, 1049, 2004, 9999}
DrawCps == (0..255) \cup {256, 9472, WIDE} \cup {321, 362, 577, 20033, 65345, 65537, 65601, 65642, 65769, 131072, 131137, 131178}
SweepParams == (0..40) \cup {63, 64, 65, 127, 128, 129, 255, 256, 257, 299, 300, 301, 511, 512, 513, 1023, 1024, 1025, 4095, 4096, 9998, 9999}
\* all of 0..900 (ASCII, C1, Latin-1, Latin Extended, IPA, combining diacriticals) and members of the classes further up
SweepChars == (0..900) \cup {20033, 65345, 65536, 65601, 65642, 65769, 131072, 131137, 131178, 1541, 1564, 2307, 2366, 94192, 4352, 8203, 8204, 8205, 8206, 8232, 8288, 8413, 9786, 12288, 12295, 19968, 44032, 65039, 65279, 65281,
                             65533, 127462, 128512, 917505, 1114111}

\* a long parameter list: n alternating bold / normal-intensity codes, then a tail whose effect must still arrive
LongList(n, tail) == [i \in 1..n |-> IF i % 2 = 1 THEN 1 ELSE 22] \o tail

MoveEvents(s) ==
  { Ev(op, <<n>>) : op \in {"cuu", "cud", "cnl", "cpl", "vpa"}, n \in Params(s.L) }
  \cup { Ev(op, <<n>>) : op \in {"cuf", "cub", "cha"}, n \in Params(s.C) }
  \cup { Ev("cup", <<a, b>>) : a \in Params(s.L), b \in Params(s.C) }
  \cup { Ev("bs", <<>>), Ev("cr", <<>>) }
Events(s) ==
  CASE Model = "C05" -> MoveEvents(s)
    [] Model = "C04sweep" -> { EvS("draw", <<cp>>) : cp \in SweepChars }
    [] Model = "Phuge" ->
         \* (horizontal operations on the wide screen, vertical ones on the tall screen)
         { Ev(op, <<n>>) : op \in (IF s.L = 1 THEN {"cuf", "cub", "cha", "ich", "dch", "ech"} ELSE {"cuu", "cud", "cnl", "cpl", "vpa", "il", "dl"}),
                           n \in {65535, 65536, 65537, 65538} }
         \cup { Ev("cup", <<n, n>>) : n \in {65536, 65537, 65538} }
         \cup (IF s.L = 1 THEN { Ev("ht", <<>>), Ev("el", <<0>>), Ev("el", <<1>>), EvS("draw", <<120>>) } ELSE { Ev("ed", <<0>>), Ev("ed", <<1>>) })
    [] Model = "Psweep" ->
         { Ev(op, <<n>>) : op \in {"cuu", "cud", "cuf", "cub", "cnl", "cpl", "cha", "vpa", "ich", "dch", "ech", "il", "dl"}, n \in SweepParams }
         \cup { Ev("cup", <<n, n>>) : n \in SweepParams } \cup { Ev("decstbm", <<2, n>>) : n \in SweepParams }
         \cup { EvS("draw", <<120>>), EvS("draw", <<WIDE>>), EvS("draw", <<120, COMB>>), EvS("draw", <<120, 121, 122>>), Ev("ht", <<>>), Ev("hts", <<>>),
                Ev("ind", <<>>), Ev("ri", <<>>), Ev("lf", <<>>), Ev("cr", <<>>), Ev("bs", <<>>), Ev("decaln", <<>>),
                EvM("sm", <<5>>, TRUE), EvM("sm", <<4>>, FALSE) }
         \cup { Ev(op, <<n>>) : op \in {"el", "ed"}, n \in 0..2 } \cup (IF s.L = 1 THEN { Ev("resize", <<n, m>>) : n \in {-1, 2}, m \in {-1, 1, s.C - 1, s.C + 1} }
                                                                          ELSE { Ev("resize", <<n, m>>) : n \in {-1, 1, s.L - 1, s.L + 1}, m \in {-1, 2} })
    [] Model = "C18all" -> { Ev("ht", <<>>) }
    [] Model \in {"C18", "C18w"} -> { Ev("ht", <<>>), Ev("hts", <<>>), Ev("ris", <<>>) } \cup { Ev("tbc", <<n>>) : n \in {-1, 0, 1, 2, 3, 4, 9999} }
    [] Model = "C06" -> { Ev(op, <<>>) : op \in {"ind", "lf", "ri"} }
                        \cup { Ev(op, <<n>>) : op \in {"il", "dl"}, n \in Params(s.L) }
                        \cup { Ev("decstbm", <<a, b>>) : a \in Params(s.L), b \in Params(s.L) }
    [] Model = "C07" -> { Ev(op, <<n>>) : op \in {"ed", "el"}, n \in {-1, 0, 1, 2, 3, 4, 5, 9999} }
                        \cup { Ev("ech", <<n>>) : n \in Params(s.C) }
    [] Model = "C13" -> { Ev(op, <<n>>) : op \in {"ich", "dch"}, n \in Params(s.C) }
    [] Model = "C08" -> { Ev("sgr", LongList(n, tail)) : n \in {13, 14, 15, 16, 17, 29, 30, 31, 32, 33, 61, 62, 63, 64, 65, 125, 126, 127, 128, 129, 253, 254, 255, 256, 257},
                                                       tail \in { <<31, 4, 9>>, <<38, 5, 200, 3>>, <<48, 2, 10, 20, 30, 7>> } }
                        \cup { Ev("sgr", <<n>>) : n \in 0..SgrMax } \cup { Ev("sgr", <<n>>) : n \in {255, 256, 1000, 9999} }
                        \cup { Ev("sgr", <<>>) }
                        \cup { Ev("sgr", <<k, 5, n>>) : k \in {38, 48}, n \in {0, 1, 7, 8, 15, 16, 17, 51, 100, 231, 232, 244, 255, 256, 300, 9999} }
                        \cup { Ev("sgr", <<k, 2, a, b, 7>>) : k \in {38, 48}, a \in {0, 18, 255, 256}, b \in {0, 255, 300} }
                        \cup { Ev("sgr", q) : q \in { <<38>>, <<48>>, <<38, 5>>, <<38, 2>>, <<38, 2, 1>>, <<38, 2, 1, 2>>, <<38, 9, 31>>,
                                                      <<38, 5, 4, 1>>, <<1, 38, 5, 1, 4>>, <<38, 2, 1, 2, 3, 4>>, <<48, 0, 31>>,
                                                      <<31, 0>>, <<0, 31>>, <<1, 22>>, <<7, 27, 7>>, <<38, 5, 300, 1>>, <<38, 38, 5, 1>>,
                                                      <<38, 2, 300, 0, 0, 3>>, <<5, 38>>, <<48, 5>>, <<39, 49>>, <<90, 100>>, <<97, 107, 1>>} }
    [] Model = "C16" -> { Ev("resize", <<a, b>>) : a \in {-1} \cup 1..(s.L + 2), b \in {-1} \cup 1..(s.C + 2) }
    [] Model = "C04" -> { EvS("draw", t) : t \in Texts }
    [] Model = "C12" -> { EvM(op, <<n>>, pr) : op \in {"sm", "rm"}, n \in ModeNumbers, pr \in BOOLEAN }
                        \cup { EvM(op, [i \in 1..n |-> IF i = n THEN last ELSE 2000 + i], pr) : op \in {"sm", "rm"}, n \in {16, 17, 32, 33, 64, 65, 129}, last \in {4, 7, 25}, pr \in BOOLEAN }
                        \cup { EvM(op, q, TRUE) : op \in {"sm", "rm"}, q \in { <<6, 7>>, <<5, 25>>, <<3, 6>>, <<25, 1049, 5>>, <<7, 7>> } }
    [] Model = "C14" -> { Ev("decsc", <<>>), Ev("decrc", <<>>) }
    [] Model = "C20" -> { EvS("draw", <<cp>>) : cp \in DrawCps }
                        \cup { Ev("so", <<>>), Ev("si", <<>>) }
                        \cup { [Ev("charset", <<w>>) EXCEPT !.s = <<k>>] : w \in {40, 41, 42}, k \in {66, 48, 85, 86, 65, 75, 49} }
    [] Model = "C10" -> { [Ev("display", <<>>) EXCEPT !.wm = WmModel] }
    [] Model = "C15" -> { Ev("ris", <<>>) }

Decl(s, e, t) ==
  CASE Model = "C05" -> Decl_C05(s, e, t)
    [] Model \in {"C18", "C18w", "C18all"} -> Decl_C18(s, e, t)
    [] Model = "C06" -> Decl_C06(s, e, t)
    [] Model = "C07" -> Decl_C07(s, e, t)
    [] Model = "C13" -> Decl_C13(s, e, t)
    [] Model = "C08" -> Decl_C08(s, e, t)
    [] Model = "C16" -> Decl_C16(s, e, t)
    [] Model = "C04" ->
         IF Len(e.s) = 1 THEN Decl_C04_Char(s, e.s[1], W(e.wm, e.s[1]), Comb(e.wm, e.s[1]), t)
         ELSE \* a longer text is the composition of its characters
              Agree(FoldLeft(LAMBDA acc, cp : Apply(acc, EvS("draw", <<cp>>)), s, e.s), t, AllFields \ {"dirty"})
    [] Model = "C12" -> IF Len(e.p) = 1 THEN Decl_C12_One(s, e, t)
                        ELSE \* a list behaves like its elements one after the other
                             Agree(FoldLeft(LAMBDA acc, n : Apply(acc, EvM(e.op, <<n>>, e.pr)), s, e.p), t, AllFields \ {"dirty"})
    [] Model = "C14" -> Decl_C14(s, e, t)
    [] Model = "C20" -> Decl_C20(s, e, t)
    [] Model = "C10" -> t = s /\ Render(s, WmModel) = RenderCols(s, WmModel)
    [] Model = "C15" -> Decl_C15(s, e, t)

-----------------------------------------------------------------------------
Init ==
  /\ \E f \in Families :
        /\ MemberOK(f)
        /\ setup = [c |-> f.c, l |-> f.l, h |-> f.h]
        /\ pre = [Run(f.c, f.l, f.h) EXCEPT !.sc = 0]
  /\ ev = NoEv
  /\ post = pre
  /\ phase = 0

Next ==
  /\ phase = 0
  /\ phase' = 1
  /\ \E e \in Events(pre) : ev' = e /\ post' = Apply(pre, e)
  /\ UNCHANGED <<setup, pre>>

Spec == Init /\ [][Next]_vars

\* the property a model belongs to
PropOf == IF Model \in {"C18w", "C18all"} THEN "C18" ELSE IF Model = "C04sweep" THEN "C04" ELSE Model

\* Spec |= P : the declarative reading holds on every transition of the family
Holds == phase = 1 => Decl(pre, ev, post)
\* the specification never leaves the well-formed states, and its own dirty marking satisfies C17
WellFormedInv == phase = 1 => WellFormedCore(post) /\ DirtyOK(post)
DirtyInv == phase = 1 => Decl_C17(pre, ev, post)
\* the deterministic step predicate used on the implementation accepts the specification's own step
SelfInv == phase = 1 => (InScope(PropOf, pre, ev) =>
              Bad(PropOf, pre, ev, post, IF ev.op = "display" THEN Render(pre, WmModel) ELSE <<>>) = {})

\* one replayable vector per transition
Emit == (phase = 1 /\ EmitVectors) =>
          PrintT(<<"VEC", ToJson([C |-> setup.c, L |-> setup.l, setup |-> setup.h, ev |-> ev])>>)
=============================================================================
