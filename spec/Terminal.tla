------------------------------ MODULE Terminal ------------------------------
(* The whole emulator as ONE state machine with named actions: byte decoder   *)
(* x escape-sequence recogniser x screen, driven through the three ports of   *)
(* the implementation (bytes, characters, direct API) and the embedder's      *)
(* actions (resize, display, clearing the dirty set, selecting the parser's   *)
(* character mode).  All semantics come from the pure operator modules; this   *)
(* module gives them VARIABLES, an initial state and a next-state relation so  *)
(* that TLC can explore BEHAVIOURS of the system (exhaustively with a state    *)
(* constraint on tiny alphabets, or with -simulate) and check the system-level *)
(* invariants below in every reachable state.                                  *)
EXTENDS Props, Recognizer, Utf8

CONSTANTS Cols, Lines,        \* initial geometry
          MaxCols, MaxLines,  \* resize targets
          ByteAlphabet,       \* bytes fed through the bytes port
          CharAlphabet,       \* code points fed through the chars port
          ApiEvents,          \* abstract events called directly
          Wm                  \* width facts of the characters in the alphabets

VARIABLES scr,    \* screen state (ScreenOps record)
          rec,    \* recogniser state
          pend,   \* undecoded tail of the byte stream
          utf8,   \* parser mode
          steps   \* number of steps taken (bounds exploration)
vars == <<scr, rec, pend, utf8, steps>>

WithWm(e) == [op |-> e.op, p |-> e.p, s |-> e.s, pr |-> e.pr, wm |-> Wm]
\* the listener events of a run of characters applied to the screen
Deliver(s, evs) == FoldLeft(LAMBDA acc, e : [Apply(acc, WithWm(e)) EXCEPT !.sc = 0], s, evs)

Init ==
  /\ scr = Fresh(Cols, Lines)
  /\ rec = Ground
  /\ pend = <<>>
  /\ utf8 = TRUE
  /\ steps = 0

\* bytes port: one feed() call of one byte (by chunk independence any call is a sequence of these)
FeedByte(b) ==
  LET d  == IF utf8 THEN DecodeCall(pend, <<b>>) ELSE [out |-> <<b>>, pend |-> <<>>]
      rf == RFeed(rec, d.out, utf8) IN
  /\ pend' = d.pend
  /\ rec' = rf.r
  /\ scr' = Deliver(scr, rf.evs)
  /\ UNCHANGED utf8
\* chars port: the decoder is bypassed
FeedChar(c) ==
  LET rf == RFeed(rec, <<c>>, utf8) IN
  /\ rec' = rf.r
  /\ scr' = Deliver(scr, rf.evs)
  /\ UNCHANGED <<pend, utf8>>
\* direct API call on the screen
Api(e) ==
  /\ scr' = [Apply(scr, e) EXCEPT !.sc = 0]
  /\ UNCHANGED <<rec, pend, utf8>>
Resize(l, c) ==
  /\ scr' = [DoResize(scr, l, c) EXCEPT !.sc = 0]
  /\ UNCHANGED <<rec, pend, utf8>>
Display ==            \* returns Render(scr); no state change
  UNCHANGED <<scr, rec, pend, utf8>>
ClearDirty ==
  /\ scr' = [scr EXCEPT !.dirty = {}]
  /\ UNCHANGED <<rec, pend, utf8>>
\* select_other_charset: "@" = 8-bit (pending input is discarded), "G"/"8" = UTF-8
SelectCharset(to8bit) ==
  /\ utf8' = ~to8bit
  /\ pend' = IF to8bit THEN <<>> ELSE pend
  /\ UNCHANGED <<scr, rec>>

Next ==
  /\ steps' = steps + 1
  /\ \/ \E b \in ByteAlphabet : FeedByte(b)
     \/ \E c \in CharAlphabet : FeedChar(c)
     \/ \E e \in ApiEvents : Api(e)
     \/ \E l \in 1..MaxLines, c \in 1..MaxCols : Resize(l, c)
     \/ ClearDirty
     \/ \E m \in BOOLEAN : SelectCharset(m)

Spec == Init /\ [][Next]_vars

-----------------------------------------------------------------------------
(* system-level invariants                                                   *)
ScreenOK == WellFormedCore(scr) /\ DirtyOK(scr)
OriginConfined == (DECOM \in scr.modes /\ scr.mar # <<>>) => (scr.mar[1] <= scr.y /\ scr.y <= scr.mar[2])
RecOK ==
  /\ rec.st \in {"ground", "esc", "esc#", "esc%", "escp", "csi", "csi$", "osc", "oscp", "oscesc"}
  /\ (rec.st = "ground" => rec = Ground)
  /\ (rec.st \in {"csi"} => (rec.cur >= -1 /\ rec.cur <= 9999 /\ \A i \in 1..Len(rec.params) : rec.params[i] \in 0..9999))
  /\ (rec.st # "escp" => rec.which = 0)
\* the undecoded tail is always a proper prefix of some well-formed sequence, and empty in 8-bit mode
PendOK ==
  /\ (~utf8 => pend = <<>>)
  /\ (pend # <<>> => (IsLead(pend[1]) /\ Len(pend) < SeqLen(pend[1])
                       /\ (Len(pend) >= 2 => SecondOK(pend[1], pend[2]))
                       /\ \A i \in 3..Len(pend) : InR(pend[i], 128, 191)))
\* the universal reset word: from every reachable state CAN BEL BEL brings the recogniser to ground
\* and flushes the decoder
ResetWordOK ==
  LET d  == IF utf8 THEN DecodeCall(pend, <<24, 7, 7>>) ELSE [out |-> <<24, 7, 7>>, pend |-> <<>>] IN
  d.pend = <<>> /\ RFeed(rec, d.out, utf8).r = Ground
\* tab stops, modes and the stack stay finite sets / sequences of the right shape (type invariant)
TypeOK ==
  /\ scr.x \in 0..scr.C /\ scr.y \in 0..(scr.L - 1)
  /\ scr.cs \in {0, 1} /\ scr.g0 \in CharsetCodes /\ scr.g1 \in CharsetCodes
  /\ scr.attr.a \in 0..63
  /\ \A r \in 1..scr.L, c \in 1..scr.C : scr.g[r][c].a \in 0..63
  /\ scr.savedcols \in {-1} \cup (1..200)
  /\ \A i \in 1..Len(scr.saves) : scr.saves[i].cs \in {0, 1} /\ scr.saves[i].x >= 0 /\ scr.saves[i].y >= 0
=============================================================================
