SPECIFICATION Spec
CONSTANTS
  MaxLen = 5
  Utf8Mode = FALSE
  EmitVectors = FALSE
  Family = "graph"
VIEW View
INVARIANTS Agrees GroundClean ResetWord Complete Emit
CHECK_DEADLOCK FALSE
