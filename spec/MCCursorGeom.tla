---------------------------- MODULE MCCursorGeom ----------------------------
(* Binding of the Apalache fragment to the screen specification.             *)
(* CursorGeom.tla is a transcription, on plain integers, of what ScreenOps   *)
(* does to the cursor, the region, origin mode and the size.  TLC checks     *)
(* here, for every state satisfying IndInv with sizes up to MaxSize (and the *)
(* 132-column states DECCOLM leads to) and every bounded parameter, that     *)
(* each step of each CursorGeom action is EXACTLY the step ScreenOps!Apply   *)
(* takes from the embedded state on the corresponding event (Refines), so    *)
(* the unbounded inductive invariant proved by Apalache is a statement about *)
(* the specification the implementation is bound to, not about a look-alike. *)
EXTENDS CursorGeom, Sequences, FiniteSets, TLC

CONSTANTS MaxSize, MaxPar

S == INSTANCE ScreenOps

VARIABLE act
vars == <<L, C, x, y, hasMar, top, bot, decom, saved>>
mcvars == <<vars, act>>

Sizes == 1..MaxSize
Pars  == (-1..MaxPar) \cup {9999}

Ev(op, p)      == [op |-> op, p |-> p, s |-> <<>>, pr |-> FALSE, wm |-> <<>>]
EvM(op, p, pr) == [op |-> op, p |-> p, s |-> <<>>, pr |-> pr, wm |-> <<>>]
EvS(op, t)     == [op |-> op, p |-> <<>>, s |-> t, pr |-> FALSE, wm |-> <<>>]

\* the ScreenOps state the variables stand for; sv = the saved-cursor stack DECRC pops
Embed(sv) ==
  [S!Fresh(C, L) EXCEPT !.x = x, !.y = y,
                        !.mar = IF hasMar THEN <<top, bot>> ELSE <<>>,
                        !.modes = (S!DefaultModes \ {S!DECOM}) \cup (IF decom THEN {S!DECOM} ELSE {}),
                        !.savedcols = saved, !.saves = sv]
\* t is the primed state
IsNext(t) ==
  /\ t.L = L' /\ t.C = C' /\ t.x = x' /\ t.y = y'
  /\ (t.mar # <<>>) = hasMar' /\ (hasMar' => t.mar = <<top', bot'>>)
  /\ (S!DECOM \in t.modes) = decom' /\ t.savedcols = saved'
Agree(ev) == IsNext(S!Apply(Embed(<<>>), ev))
SaveOf(sx, sy, so) ==
  [S!Savepoint(S!Fresh(C, L)) EXCEPT !.x = sx, !.y = sy, !.origin = so]

\* EVERY state satisfying IndInv within the bounds is an initial state (plus the 132-column states DECCOLM leads to),
\* so one step from each of them is every step of every action within the bounds (MCNext is enabled in them only)
MCInit ==
  /\ L \in Sizes /\ C \in Sizes \cup {ColmWidth} /\ x \in (0..MaxSize) \cup {ColmWidth - 1, ColmWidth} /\ y \in 0..MaxSize
  /\ hasMar \in BOOLEAN /\ decom \in BOOLEAN /\ top \in 0..MaxSize /\ bot \in 0..MaxSize
  /\ saved \in {-1} \cup Sizes \cup {ColmWidth}
  /\ IndInv
  /\ (~hasMar => top = 0 /\ bot = 0)
  /\ act = <<"init">>

\* the ghost variable act names the action instance taken, so that Refines evaluates ONE comparison per step
T(A, t) == A /\ act' = t
MCNext ==
  /\ act = <<"init">>
  /\ \/ \E n \in Pars : \/ T(Cuu(n), <<"cuu", n>>)   \/ T(Cud(n), <<"cud", n>>)
                         \/ T(Cuf(n), <<"cuf", n>>)   \/ T(Cub(n), <<"cub", n>>)
                         \/ T(Cnl(n), <<"cnl", n>>)   \/ T(Cpl(n), <<"cpl", n>>)
                         \/ T(Cha(n), <<"cha", n>>)   \/ T(Vpa(n), <<"vpa", n>>)
                         \/ T(IlDl, <<"il", n>>)      \/ T(IlDl, <<"dl", n>>)
     \/ \E l \in Pars, c \in Pars : \/ T(Cup(l, c), <<"cup", l, c>>)
                                     \/ T(Decstbm(l, c), <<"decstbm", l, c>>)
     \/ T(Cr, <<"cr">>)             \/ T(DrawLast, <<"draw">>)
     \/ T(SetDecom, <<"sm", 6>>)    \/ T(ClrDecom, <<"rm", 6>>)
     \/ T(SetColm, <<"sm", 3>>)     \/ T(ClrColm, <<"rm", 3>>)
     \/ T(Ind, <<"ind">>)           \/ T(Ind, <<"lf">>)
     \/ T(Ri, <<"ri">>)             \/ T(Ris, <<"ris">>)
     \/ \E l \in Sizes, c \in Sizes : T(Resize(l, c), <<"resize", l, c>>)
     \/ \E sx \in 0..(MaxSize + 1), sy \in 0..(MaxSize + 1), so \in BOOLEAN :
          T(Decrc(sx, sy, so), <<"decrc", sx, sy, so>>)

MCSpec == MCInit /\ [][MCNext]_mcvars

\* every step is the step ScreenOps takes on the corresponding event
StepRefines ==
  LET a == act'  op == a[1] IN
  CASE op \in {"cuu", "cud", "cuf", "cub", "cnl", "cpl", "cha", "vpa", "il", "dl"} -> Agree(Ev(op, <<a[2]>>))
    [] op \in {"cup", "decstbm", "resize"} -> Agree(Ev(op, <<a[2], a[3]>>))
    [] op \in {"cr", "ind", "lf", "ri", "ris"} -> Agree(Ev(op, <<>>))
    [] op = "draw" -> Agree(EvS("draw", <<113>>))
    [] op \in {"sm", "rm"} -> Agree(EvM(op, <<a[2]>>, TRUE))
    [] op = "decrc" -> IsNext(S!Apply(Embed(<<SaveOf(a[2], a[3], a[4])>>), Ev("decrc", <<>>)))
Refines == [][StepRefines]_mcvars

\* and the embedded state is well-formed in ScreenOps's own terms
Inv == IndInv
=============================================================================
