------------------------------ MODULE MCRecAbs ------------------------------
(* Soundness of the character-class abstraction used by MCRec (C03, C19).      *)
(* MCRec explores strings over one representative of every character class    *)
(* the grammar distinguishes.  This model checks, for EVERY code point         *)
(* 0..767 (all of ASCII, C1, Latin-1 and beyond; everything above behaves like  *)
(* the sampled non-ASCII characters) and a representative of every recogniser  *)
(* state, that one step of the recogniser depends on the character only        *)
(* through its class: replacing the character by its class representative      *)
(* gives a step of the same shape (same next state kind, same collector         *)
(* lengths, same kinds of events).  A character the recogniser treated          *)
(* specially but the model's alphabet did not contain would violate it.         *)
EXTENDS Recognizer, Json, TLC

CONSTANTS EmitVectors, OscOnly      \* OscOnly: sweep the states inside an OSC string only (C19)

VARIABLES pfx, r, c, utf8      \* pfx: an input string that puts the recogniser into state r
vars == <<pfx, r, c, utf8>>

\* the characters MCRec's alphabet contains individually
Individually ==
  {7, 8, 9, 10, 11, 12, 13, 14, 15, 24, 26, 27, 155, 157, 156, 0, 1, 127}
  \cup {59, 63, 36, 32, 62, 35, 37, 40, 41, 91, 93, 92}
  \cup {64, 65, 66, 67, 68, 69, 70, 71, 72, 74, 75, 76, 77, 80, 88, 97, 99, 100, 101, 102, 103, 104, 108, 109, 114}
  \cup {55, 56, 82, 112, 48, 49, 50}
\* class representative of a character
CRep(x) ==
  IF x \in Individually THEN x
  ELSE IF x >= 48 /\ x <= 57 THEN 57            \* the other digits behave like 9 (51 is also an OSC code without effect)
  ELSE IF x < 32 THEN 1                         \* C0 controls without a function
  ELSE IF x < 127 THEN 120                      \* printable ASCII without a function in the grammar
  ELSE 233                                      \* C1 without a function, Latin-1 and everything above

\* a representative of every recogniser state, each given by an input string that reaches it
AllStatePrefixes ==
  { <<>>, <<27>>, <<27, 35>>, <<27, 37>>, <<27, 91, 36>>, <<27, 93>>, <<157>>, <<27, 40>>, <<27, 41>> }
  \cup { intro \o body : intro \in {<<27, 91>>, <<155>>},
                         body \in { <<>>, <<53>>, <<53, 59>>, <<63>>, <<63, 53, 59, 48>>, <<57, 57, 57, 57, 57>>, <<53, 59, 48, 59>>, <<48>>, <<32, 55>> } }
  \cup { <<27, 93, cd>> \o pay \o esc : cd \in {48, 49, 50, 51, 120}, pay \in {<<>>, <<59>>, <<59, 120>>, <<120>>}, esc \in {<<>>, <<27>>} }
IsOscPrefix(p) == (Len(p) >= 1 /\ p[1] = 157) \/ (Len(p) >= 2 /\ p[1] = 27 /\ p[2] = 93)
StatePrefixes == IF OscOnly THEN { p \in AllStatePrefixes : IsOscPrefix(p) } ELSE AllStatePrefixes
\* the characters swept: all of 0..767 and a few members of classes that only exist further up
\* (decimal digits and numerics of other scripts, CJK, emoji)
Chars == (0..767) \cup {1635, 2406, 8544, 12295, 65301, 19968, 128512, 65533}

\* what must not depend on the particular member of a class
Shape(n) ==
  [st |-> n.r.st, np |-> Len(n.r.params), nocur |-> n.r.cur = -1, priv |-> n.r.priv, which |-> n.r.which,
   npay |-> Len(n.r.payload),
   evs |-> [i \in 1..Len(n.evs) |-> <<n.evs[i].op, Len(n.evs[i].p), Len(n.evs[i].s), n.evs[i].pr>>]]

Init ==
  /\ utf8 \in BOOLEAN
  /\ pfx \in StatePrefixes
  /\ r = RFeed(Ground, pfx, utf8).r
  /\ c \in Chars
Next == UNCHANGED vars
Spec == Init /\ [][Next]_vars

ClassAbstractionSound == Shape(RStep(r, c, utf8)) = Shape(RStep(r, CRep(c), utf8))
\* a character is either consumed by a sequence or delivered as text, exactly once
Accounted ==
  LET n == RStep(r, c, utf8)
      asText == Len(SelectSeq(n.evs, LAMBDA e : e.op = "draw")) IN
  /\ asText <= 1
  /\ (asText = 1 => n.evs[Len(n.evs)].s = <<c>>)
  /\ (r.st = "ground" /\ c \notin {27, 155, 157} \cup Basic => asText = 1)

\* one vector per (state, character): the prefix, the character, and a tail that reveals the state reached
\* (`x` is drawn unless still inside a sequence; BEL ends an OSC string) - the class-member sweep on the real code
Emit == EmitVectors => PrintT(<<"VEC", ToJson([s |-> pfx \o <<c>> \o <<120, 7, 121>>, utf8 |-> utf8])>>)
=============================================================================
