------------------------------ MODULE MCUtf8Abs ------------------------------
(* Soundness of the byte-class abstraction used by MCUtf8 (C11).               *)
(* MCUtf8 enumerates byte strings over ONE representative per byte class.      *)
(* This model checks, exhaustively over ALL 256 byte values and ALL pending    *)
(* tails the decoder can hold, that one step of the streaming decoder depends  *)
(* on its input only through the classes: replacing the pending tail and the   *)
(* next byte by their class representatives yields a result of the same shape  *)
(* (same number of characters, replacement characters in the same places,      *)
(* pending tail of the same length and classes).  Together with                *)
(* StreamingEqualsWhole over the representatives this extends C11's model      *)
(* result from the 14 representatives to all byte values.  It also checks that *)
(* the pending tail is always a proper prefix of a well-formed sequence.       *)
EXTENDS Utf8, Json, TLC

CONSTANTS EmitVectors, RepTailsOnly      \* RepTailsOnly: quick variant - only the representative tails (the sweep of all 256 bytes on the code)

VARIABLES pend, b
vars == <<pend, b>>

\* byte classes of Table 3-7 and their representatives (those of MCUtf8)
CRep(x) ==
  CASE x <= 127 -> 65 [] InR(x, 128, 143) -> 133 [] InR(x, 144, 159) -> 149 [] InR(x, 160, 191) -> 176
    [] InR(x, 192, 193) -> 192 [] InR(x, 194, 223) -> 195 [] x = 224 -> 224 [] InR(x, 225, 236) -> 226
    [] x = 237 -> 237 [] InR(x, 238, 239) -> 238 [] x = 240 -> 240 [] InR(x, 241, 243) -> 241
    [] x = 244 -> 244 [] OTHER -> 245
RepSeq(q) == [i \in 1..Len(q) |-> CRep(q[i])]

\* every tail the decoder can hold: proper prefixes of well-formed sequences
Tails1 == { <<l>> : l \in { x \in 194..244 : TRUE } }
Tails2 == { <<l, s>> : l \in 224..244, s \in 128..191 } \cap { q \in (224..244) \X (128..191) : SecondOK(q[1], q[2]) }
Tails3 == { <<l, s, t>> : l \in 240..244, s \in 128..191, t \in 128..191 } \cap
          { q \in (240..244) \X (128..191) \X (128..191) : SecondOK(q[1], q[2]) }
Tails == {<<>>} \cup Tails1 \cup Tails2 \cup Tails3

PendOK(q) ==
  q = <<>> \/ (IsLead(q[1]) /\ Len(q) < SeqLen(q[1]) /\ (Len(q) >= 2 => SecondOK(q[1], q[2]))
               /\ \A i \in 3..Len(q) : InR(q[i], 128, 191))

Step(q, x) == DecStep([out |-> <<>>, pend |-> q], x)
\* shape of a step: "R" replacement character, "C" decoded character (EF BF BD is the well-formed encoding of
\* U+FFFD itself - a decoded character, not a replacement)
StepShape(q, x) ==
  LET d == Step(q, x) IN
  [out |-> IF Append(q, x) = <<239, 191, 189>> THEN <<"C">>
           ELSE [i \in 1..Len(d.out) |-> IF d.out[i] = REPL THEN "R" ELSE "C"],
   pend |-> RepSeq(d.pend)]

Init == pend \in (IF RepTailsOnly THEN { q \in Tails : q = RepSeq(q) } ELSE Tails) /\ b \in 0..255
Next == UNCHANGED vars
Spec == Init /\ [][Next]_vars

TailsAreOK == PendOK(pend)
StepKeepsTailOK == PendOK(Step(pend, b).pend)
ClassAbstractionSound == StepShape(pend, b) = StepShape(RepSeq(pend), CRep(b))
\* a step emits at most two characters (a flushed ill-formed tail and the new byte) and never loses the byte
StepAccountsForByte ==
  LET d == Step(pend, b) IN
  /\ Len(d.out) <= 2
  /\ (d.pend = <<>> => Len(d.out) >= 1)
  /\ (d.pend # <<>> => d.pend[Len(d.pend)] = b)

\* class-member sweep on the real code: every byte value after every representative tail (the tail arrives in
\* one feed() call, the byte and a flushing `A` in the next)
Emit == (EmitVectors /\ pend = RepSeq(pend)) =>
          PrintT(<<"VEC", ToJson([chunks |-> IF pend = <<>> THEN << <<b, 65>> >> ELSE << pend, <<b, 65>> >>, sw |-> 0])>>)
=============================================================================
