#!/usr/bin/env python3
"""Development tool: runs every registered quick check against every seeded change (each applied in its own scratch
worktree of /repo under /tmp, never in /repo itself) and records which checks report a violation.
usage: matrix.py [name ...]   -> /verif/seeded/matrix.json"""
import json, os, subprocess, sys, shutil, time
V = "/verif"
names = sys.argv[1:] or sorted(d for d in os.listdir(V + "/seeded") if os.path.isdir(V + "/seeded/" + d))
props = ["C%02d" % i for i in range(1, 21)]
mpath = V + "/seeded/matrix.json"
matrix = json.load(open(mpath)) if os.path.exists(mpath) else {}
for name in names:
    wt, hd, out = "/tmp/mx-" + name, "/tmp/mx-" + name + "-h", "/tmp/mx-" + name + "-o"
    for d in (hd, out):
        shutil.rmtree(d, ignore_errors=True)
    subprocess.run(["git", "-C", "/repo", "worktree", "remove", "--force", wt], stderr=subprocess.DEVNULL)
    subprocess.run(["git", "-C", "/repo", "worktree", "add", "--detach", wt, "HEAD", "-q"], check=True)
    subprocess.run(["git", "-C", wt, "apply", V + "/seeded/" + name + "/patch.diff"], check=True)
    shutil.copytree(V + "/harness", hd, ignore=shutil.ignore_patterns("target"))
    t = open(hd + "/Cargo.toml").read().replace('path = "/repo"', 'path = "%s"' % wt)
    open(hd + "/Cargo.toml", "w").write(t)
    os.makedirs(out, exist_ok=True)
    env = dict(os.environ, VERIF_DEV_HARNESS=hd, VERIF_DEV_OUT=out)
    row = {}
    for p in props:
        t0 = time.time()
        r = subprocess.run([V + "/bin/check", p, "--tier", "quick"], env=env, stdout=subprocess.PIPE, stderr=subprocess.STDOUT, text=True)
        keys = sorted({l.split("key=")[1].split(" ")[0] for l in r.stdout.splitlines() if l.strip().startswith("key=")})
        row[p] = {"rc": r.returncode, "keys": keys[:6], "wall_s": round(time.time() - t0)}
        print(name, p, r.returncode, keys[:3], flush=True)
    matrix[name] = row
    json.dump(matrix, open(mpath, "w"), indent=1)
    subprocess.run(["git", "-C", "/repo", "worktree", "remove", "--force", wt])
    for d in (hd, out):
        shutil.rmtree(d, ignore_errors=True)
