#!/usr/bin/env python3
"""kill processes whose command line contains every given substring (excluding this process and its ancestors)"""
import os, sys, signal
pats = sys.argv[1:]
anc, p = set(), os.getpid()
while p > 1:
    anc.add(p)
    try: p = int(open("/proc/%d/stat" % p).read().split(")")[-1].split()[1])
    except Exception: break
for d in os.listdir("/proc"):
    if d.isdigit() and int(d) not in anc:
        try: cmd = open("/proc/%s/cmdline" % d).read().replace("\0", " ")
        except Exception: continue
        if all(x in cmd for x in pats):
            try: os.kill(int(d), signal.SIGKILL); print("killed", d, cmd[:80])
            except Exception: pass
