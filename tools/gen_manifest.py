#!/usr/bin/env python3
"""Regenerates /verif/MANIFEST.json from bin/plans.py (checks that exist) and properties.jsonl."""
import json, os, sys, subprocess
V = os.path.dirname(os.path.dirname(os.path.abspath(__file__)))
sys.path.insert(0, os.path.join(V, "bin"))
from plans import PLANS
props = [json.loads(l) for l in open(os.path.join(V, "properties.jsonl"))]
hooks = subprocess.run(["git", "-C", "/repo", "log", "--format=%H %s"], stdout=subprocess.PIPE, text=True).stdout.splitlines()
hook_commits = [l.split()[0] for l in hooks if l.split(" ", 1)[1].startswith("verif hook")]
TECH = {
 "C01": "TLC trace validation of spec-generated and seeded random inputs (no panic / abort / hang; wedge probe); spec totality by TLC",
 "C02": "TLC model check of chunk-independence of the spec + TLC comparison of differently chunked runs of the real code",
 "C03": "TLC: operational recogniser vs declarative parse (MC), state-graph vectors replayed, listener events trace-validated",
 "C09": "TLC reachability model (WellFormed invariant) + WellFormed asserted by TLC on every line of every recorded trace",
 "C11": "TLC: streaming decoder vs position-based reference for all class strings x cuts (MC), vectors replayed, traces validated",
 "C17": "TLC history variable `need` over recorded traces (need <= dirty <= rows) + spec-level dirty invariant in every bounded model",
 "C14": "TLC bounded models (single steps and multi-step save/restore sequences replayed on the code) + trace validation with a history variable: the saved-cursor stack as the specification knows it",
 "C18": "TLC bounded models (all cursors; widths up to 140 with edited stops and width changes) + trace validation with a history variable: the tab stops as the specification knows them",
 "C05": "TLC bounded model (closed forms vs operational spec; every operation x parameter x state replayed on the code through api, chars and bytes) + Apalache inductive invariant over unbounded geometry + TLC trace validation of random walks",
 "C10": "TLC: Render vs a second definition (MC); display output and state judged per step; paired runs with display() at different positions compared by TLC",
 "C19": "TLC: OSC payload extraction (MC vectors over payload alphabet x terminators x introducers) + trace validation",
}
DEFAULT_TECH = "TLC bounded model (declarative property vs operational spec, one vector per transition replayed on the code) + TLC trace validation of seeded random walks"
checks = []
for p in props:
    pid = p["id"]
    if pid not in PLANS:
        continue
    plan = PLANS[pid]
    checks.append({
        "property_id": pid,
        "quick_cmd": "./bin/check %s --tier quick" % pid,
        "thorough_cmd": "./bin/check %s --tier thorough" % pid,
        "evidence_file": "/verif/evidence/%s.json" % pid,
        "replay_cmd_template": "./bin/check %s --replay {path}" % pid,
        "engine": "tlc-mbt",
        "level_claimed": {
            "category": plan.get("level", "model_checking"),
            "text": plan.get("level_text", "The TLA+ specification satisfies the declarative reading of the property on every transition of the "
                    "bounded models (TLC, exhaustive within the stated bounds); every such transition is replayed on the real code and "
                    "the observed post-state is judged by TLC with the property's step predicate; seeded random histories recorded "
                    "from the real code are validated line by line against the specification. Implementation conformance holds for "
                    "the explored transitions only (bounded-exhaustive families + random walks), hence model_checking, not proof."),
            "design_ref": "DESIGN.md section 6, " + pid,
        },
        "level_note": plan.get("level_note", "Trusted: TLC/SANY/CommunityModules Json; the harness projection (reads public fields); "
                      "unicode-width / is_combining_mark as logged environment facts; the reading of the statement in spec/Props.tla and spec/Decl.tla. "
                      "Characters are explored by class, geometries exhaustively only up to 8x5."),
        "technique": TECH.get(pid, DEFAULT_TECH),
    })
claimed = {c["property_id"] for c in checks}
na = [{"property_id": p["id"], "reason": "check under construction in this round (the specification covers it; the bounded model / driver is not registered yet)"}
      for p in props if p["id"] not in claimed]
m = {
 "version": 1,
 "setup_cmd": "./bin/setup",
 "hooks": {"guard": "memterm_verif",
           "enable": "RUSTFLAGS --cfg memterm_verif, set in /verif/harness/.cargo/config.toml (build.rustflags); the harness depends on /repo by path",
           "baseline_off_cmd": "cd /repo && cargo test --workspace --no-fail-fast --offline",
           "source_commits": hook_commits, "add_only": True},
 "engines": [{"name": "tlc-mbt", "path": "/verif/bin/check",
              "serves_properties": sorted(claimed),
              "kind_free_text": "explicit TLA+ specification (spec/*.tla) checked with TLC: bounded models emit vectors replayed on the real code; "
                                "traces recorded from the real code are validated against the specification (resynchronising trace validation)"}],
 "checks": checks,
 "notes": "All judgements are made by TLC on the TLA+ specification; the Rust harness (harness/) only generates inputs and projects the observable state. "
          "Genuine defects found on the pinned tree were repaired with `fix:` commits in /repo and are listed in known_findings.json as fixed entries.",
 "not_applicable": na,
}
json.dump(m, open(os.path.join(V, "MANIFEST.json"), "w"), indent=1)
print("claimed", sorted(claimed), "not yet", [x["property_id"] for x in na])
