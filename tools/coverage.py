#!/usr/bin/env python3
"""Vacuity report: runs every bounded model once with TLC's -coverage 1 and lists the lines of the operator modules
(ScreenOps, Sgr, Recognizer, Utf8, Decl) that no model ever evaluated.  usage: coverage.py [out.json]"""
import sys, os, re, json, subprocess, collections
V = os.path.dirname(os.path.dirname(os.path.abspath(__file__)))
sys.path.insert(0, os.path.join(V, "bin"))
import vlib
SPEC = os.path.join(V, "spec")
MODS = ["ScreenOps", "Sgr", "Recognizer", "Utf8", "Decl", "Props"]
runs = []
for m, g in [("C04", "GOne"), ("C05", "GOne"), ("C06", "GOne"), ("C07", "GOne"), ("C08", "GOne"), ("C10", "GOne"), ("C12", "GOne"),
             ("C13", "GOne"), ("C14", "GOne"), ("C15", "GOne"), ("C16", "GOne"), ("C18", "GOne"), ("C20", "GOne")]:
    runs.append(("MC", "CONSTANTS\n  Model = \"%s\"\n  Geoms <- %s\n  EmitVectors = FALSE\n  TextLen = 2\n  SgrMax = 110\n  ModeMax = 40\nINVARIANTS Holds WellFormedInv DirtyInv SelfInv\n" % (m, g), m))
for fam in ("graph", "directed", "osc", "pairs"):
    for u in ("TRUE", "FALSE"):
        runs.append(("MCRec", "CONSTANTS\n  MaxLen = 3\n  Utf8Mode = %s\n  EmitVectors = FALSE\n  Family = \"%s\"\nVIEW View\nINVARIANTS Agrees GroundClean ResetWord Complete\n" % (u, fam), "rec-%s-%s" % (fam, u)))
runs.append(("MCUtf8", "CONSTANTS\n  MaxLen = 3\n  EmitVectors = FALSE\nINVARIANTS StreamingEqualsWhole NothingLost\n", "utf8"))
runs.append(("MCStream", "CONSTANTS\n  MaxTok = 2\n  Utf8Mode = TRUE\n  EmitVectors = FALSE\n  Cols = 3\n  Lines = 2\nINVARIANTS ChunkIndependent\n", "stream"))
for m in ("C13seq", "C14seq", "C15seq", "C16seq", "C06seq"):
    runs.append(("MCSeq", "CONSTANTS\n  Model = \"%s\"\n  MaxSeq = 2\n  EmitVectors = FALSE\nINVARIANTS StepsHold NoReappear RisForgets\n" % m, m))
hit = collections.defaultdict(set)
pat = re.compile(r"line (\d+), col \d+ to line (\d+), col \d+ of module (\w+)(?:>)?: (\d+)")
for mod, body, name in runs:
    cfg = os.path.join(SPEC, ".cov_%d.cfg" % os.getpid())
    open(cfg, "w").write("SPECIFICATION Spec\n" + body + "CHECK_DEADLOCK FALSE\n")
    md = os.path.join(V, ".work", "cov-md")
    r = subprocess.run(vlib.tlc_cmd(["-workers", "4", "-coverage", "1", "-metadir", md, "-cleanup", "-noGenerateSpecTE", "-config", os.path.basename(cfg), mod + ".tla"], "14g"),
                       cwd=SPEC, stdout=subprocess.PIPE, stderr=subprocess.STDOUT, text=True)
    os.remove(cfg)
    ok = "No error has been found" in r.stdout
    n = 0
    for l in r.stdout.splitlines():
        m = pat.search(l)
        if m and int(m.group(4)) > 0 and m.group(3) in MODS:
            for k in range(int(m.group(1)), int(m.group(2)) + 1):
                hit[m.group(3)].add(k); n += 1
    print(name, "ok" if ok else "FAILED", n, flush=True)
report = {}
for mod in MODS:
    src = open(os.path.join(SPEC, mod + ".tla")).read().splitlines()
    never = []
    for i, line in enumerate(src, 1):
        t = line.strip()
        if not t or t.startswith("\\*") or t.startswith("(*") or t.startswith("----") or t.startswith("====") or t.startswith("EXTENDS") or t.startswith("*"):
            continue
        if i not in hit[mod]:
            never.append((i, t[:110]))
    report[mod] = {"lines_hit": len(hit[mod]), "never_evaluated": never}
    print("==", mod, "hit", len(hit[mod]), "never", len(never))
    for i, t in never:
        print("   %4d  %s" % (i, t))
if len(sys.argv) > 1:
    json.dump(report, open(sys.argv[1], "w"), indent=1)
