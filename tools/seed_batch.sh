#!/bin/bash
# usage: seed_batch.sh "<name> <prop>" ...   (dev) evaluates sub-agent deliverables one after the other
# expects /tmp/wt-<name> (worktree with the change) and /tmp/seedout-<name>/{patch.diff,demo.rs,meta.txt}
for x in "$@"; do
  set -- $x; n=$1; p=$2
  [ -d /tmp/wt-$n ] && [ -f /tmp/seedout-$n/patch.diff ] || { echo "== $n $p: deliverables missing"; continue; }
  cp /tmp/seedout-$n/* /tmp/wt-$n/
  echo "== $n $p"
  /verif/tools/seed_eval.sh $n /tmp/wt-$n $p 2>&1 | grep -E "^(unmodified demo|patched lib|patched demo|check )|key=" | cut -c1-220 | head -8
done
