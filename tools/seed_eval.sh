#!/bin/bash
# usage: seed_eval.sh <name> <worktree> <prop> [checks...]
# 1. confirms in the scratch worktree: with the patch all lib tests pass and the demo fails; without it the demo passes
# 2. stores patch.diff / demo.rs / meta under /verif/seeded/<name>/
# 3. applies the patch to /repo, runs the listed checks (default: <prop>), reverts /repo
name=$1; wt=$2; prop=$3; shift 3; checks="${@:-$prop}"
d=/verif/seeded/$name; mkdir -p $d
cd $wt || exit 2
cp patch.diff demo.rs $d/ 2>/dev/null; cp meta.txt $d/meta.txt 2>/dev/null
mkdir -p tests; cp demo.rs tests/demo.rs
git apply -R patch.diff 2>/dev/null || git checkout -- src
base=$(cargo test --offline --test demo 2>&1 | grep -E "^test result" | head -1)
git apply patch.diff || { echo "patch does not apply"; exit 2; }
lib=$(cargo test --offline --lib 2>&1 | grep -E "^test result" | head -1)
mut=$(cargo test --offline --test demo 2>&1 | grep -E "^test result" | head -1)
echo "unmodified demo: $base"; echo "patched lib:     $lib"; echo "patched demo:    $mut"
cd /repo && git apply $d/patch.diff || { echo "cannot apply to /repo"; exit 2; }
res=""
for c in $checks; do
  out=$(cd /verif && VERIF_DEV_OUT=/verif/.work/seedout ./bin/check $c --tier quick 2>&1); rc=$?
  v=$(echo "$out" | grep -c "^VIOLATION")
  echo "check $c rc=$rc violations=$v"; echo "$out" | grep -A1 "^VIOLATION" | head -6 | cut -c1-400
  res="$res $c:rc$rc"
done
git -C /repo checkout -- . ; git -C /repo status --short | grep -v parser_log
python3 - "$name" "$prop" "$base" "$lib" "$mut" "$res" <<'PY'
import sys, json, os
name, prop, base, lib, mut, res = sys.argv[1:7]
d = "/verif/seeded/" + name
meta = {"property": prop, "needs": open(d + "/meta.txt").read() if os.path.exists(d + "/meta.txt") else "",
        "confirmed": {"demo_on_unmodified_tree": base, "lib_tests_with_patch": lib, "demo_with_patch": mut},
        "ran": "git -C /repo apply patch.diff; ./bin/check <id> --tier quick; git -C /repo checkout -- .",
        "check_results": res.split()}
json.dump(meta, open(d + "/meta.json", "w"), indent=1)
PY
