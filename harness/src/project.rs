// Projection  Screen -> abstract state JSON.
//
// Reads public fields only and performs no interpretation beyond
//   * an absent cell is `default_char()` (what display() would materialise),
//   * restriction to 0..lines x 0..columns,
//   * charset tables are named by comparing them with the library's own MAPS.
// It never calls display() (which mutates the buffer).
use std::collections::BTreeSet;
use std::fmt::Write;

use memterm::charset::MAPS;
use memterm::screen::{CharOpts, Charset, Cursor, Screen};
use unicode_normalization::char::is_combining_mark;
use unicode_width::UnicodeWidthChar;

pub fn cps(s: &str) -> String {
    let mut out = String::from("[");
    for (i, c) in s.chars().enumerate() {
        if i > 0 {
            out.push(',');
        }
        let _ = write!(out, "{}", c as u32);
    }
    out.push(']');
    out
}

/// Environment facts (display width, combining-ness) for the given characters and
/// their images under the four charset tables, listed as [cp, width, comb] only
/// where they differ from the default rule of the specification (C0/DEL/C1:
/// width 0; everything else width 1; not combining).
pub fn wm_json<I: Iterator<Item = char>>(chars: I) -> String {
    let mut set: BTreeSet<char> = BTreeSet::new();
    for c in chars {
        set.insert(c);
        if (c as u32) < 256 {
            for m in MAPS.values() {
                set.insert(m[c as usize]);
            }
        }
    }
    let mut out = String::from("[");
    let mut first = true;
    for c in set {
        let w = c.width().unwrap_or(0);
        let cm = is_combining_mark(c);
        let cp = c as u32;
        let dw = if cp < 32 { 0 } else if cp < 127 { 1 } else if cp < 160 { 0 } else { 1 };
        if w != dw || cm {
            if !first {
                out.push(',');
            }
            first = false;
            let _ = write!(out, "[{},{},{}]", cp, w, if cm { 1 } else { 0 });
        }
    }
    out.push(']');
    out
}

/// width facts for the first character of every stored cell (what display() looks at)
pub fn grid_wm(s: &Screen) -> String {
    let mut v: Vec<char> = Vec::new();
    for line in s.buffer.values() {
        for c in line.values() {
            if let Some(ch) = c.data.chars().next() {
                v.push(ch);
            }
        }
    }
    wm_json(v.into_iter())
}

fn jstr(s: &str) -> String {
    // colours are ASCII; anything else is escaped as \uXXXX by serde_json
    serde_json::to_string(s).unwrap()
}

fn abits(c: &CharOpts) -> u32 {
    (c.bold as u32)
        | (c.italics as u32) << 1
        | (c.underscore as u32) << 2
        | (c.strikethrough as u32) << 3
        | (c.reverse as u32) << 4
        | (c.blink as u32) << 5
}

pub fn cell_json(c: &CharOpts) -> String {
    format!(
        "{{\"d\":{},\"fg\":{},\"bg\":{},\"a\":{}}}",
        cps(&c.data),
        jstr(&c.fg),
        jstr(&c.bg),
        abits(c)
    )
}

fn attr_json(c: &CharOpts) -> String {
    format!("{{\"fg\":{},\"bg\":{},\"a\":{}}}", jstr(&c.fg), jstr(&c.bg), abits(c))
}

fn charset_name(t: &[char; 256]) -> &'static str {
    for k in ["B", "0", "U", "V"] {
        if let Some(m) = MAPS.get(k) {
            if m == t {
                return match k {
                    "B" => "B",
                    "0" => "0",
                    "U" => "U",
                    _ => "V",
                };
            }
        }
    }
    "?"
}

fn list(v: &mut Vec<u32>) -> String {
    v.sort();
    let mut out = String::from("[");
    for (i, x) in v.iter().enumerate() {
        if i > 0 {
            out.push(',');
        }
        let _ = write!(out, "{}", x);
    }
    out.push(']');
    out
}

fn cursor_json(c: &Cursor) -> String {
    format!(
        "\"x\":{},\"y\":{},\"attr\":{},\"hid\":{}",
        c.x,
        c.y,
        attr_json(&c.attr),
        c.hidden
    )
}

#[derive(Default)]
pub struct Projector {
    prev_rows: Vec<String>,
    prev_c: u32,
}

impl Projector {
    pub fn reset(&mut self) {
        self.prev_rows.clear();
        self.prev_c = 0;
    }

    /// Full projection; the grid is delta-encoded against the previous call
    /// when the geometry is unchanged ("full":false, "gd":[[row index, row]..]).
    pub fn project(&mut self, s: &Screen) -> String {
        let def = s.default_char();
        let defj = cell_json(&def);
        let mut rows: Vec<String> = Vec::with_capacity(s.lines as usize);
        let mut cols: BTreeSet<String> = BTreeSet::new();
        cols.insert(s.cursor.attr.fg.clone());
        cols.insert(s.cursor.attr.bg.clone());
        cols.insert(def.fg.clone());
        cols.insert(def.bg.clone());
        let mut mat = 0u32;
        for y in 0..s.lines {
            let mut r = String::from("[");
            let line = s.buffer.get(&y);
            if line.is_some() {
                mat += 1;
            }
            for x in 0..s.columns {
                if x > 0 {
                    r.push(',');
                }
                match line.and_then(|l| l.get(&x)) {
                    Some(c) => {
                        if !cols.contains(&c.fg) {
                            cols.insert(c.fg.clone());
                        }
                        if !cols.contains(&c.bg) {
                            cols.insert(c.bg.clone());
                        }
                        r.push_str(&cell_json(c))
                    }
                    None => r.push_str(&defj),
                }
            }
            r.push(']');
            rows.push(r);
        }
        // diagnostics only (never compared): representation state outside the grid
        let hrows = s.buffer.keys().filter(|k| **k >= s.lines).count();
        let hcells: usize = s
            .buffer
            .iter()
            .filter(|(k, _)| **k < s.lines)
            .map(|(_, l)| l.keys().filter(|x| **x >= s.columns).count())
            .sum();

        let mut out = String::with_capacity(256 + rows.iter().map(|r| r.len()).sum::<usize>());
        let _ = write!(out, "{{\"L\":{},\"C\":{},", s.lines, s.columns);
        let same = self.prev_rows.len() == rows.len() && self.prev_c == s.columns && !rows.is_empty();
        if same {
            out.push_str("\"full\":false,\"gd\":[");
            let mut first = true;
            for (y, r) in rows.iter().enumerate() {
                if &self.prev_rows[y] != r {
                    if !first {
                        out.push(',');
                    }
                    first = false;
                    let _ = write!(out, "[{},{}]", y, r);
                }
            }
            out.push_str("],");
        } else {
            out.push_str("\"full\":true,\"g\":[");
            out.push_str(&rows.join(","));
            out.push_str("],");
        }
        self.prev_rows = rows;
        self.prev_c = s.columns;

        out.push_str(&cursor_json(&s.cursor));
        let mut modes: Vec<u32> = s.mode.iter().cloned().collect();
        let mut tabs: Vec<u32> = s.tabstops.iter().cloned().collect();
        let mut dirty: Vec<u32> = s.dirty.iter().cloned().collect();
        let _ = write!(out, ",\"modes\":{}", list(&mut modes));
        match s.margins {
            Some(m) => {
                let _ = write!(out, ",\"mar\":[{},{}]", m.top, m.bottom);
            }
            None => out.push_str(",\"mar\":[]"),
        }
        let _ = write!(out, ",\"tabs\":{}", list(&mut tabs));
        let _ = write!(out, ",\"title\":{},\"icon\":{}", cps(&s.title), cps(&s.icon_name));
        let _ = write!(
            out,
            ",\"cs\":{},\"g0\":\"{}\",\"g1\":\"{}\"",
            if s.charset == Charset::G1 { 1 } else { 0 },
            charset_name(&s.g0_charset),
            charset_name(&s.g1_charset)
        );
        out.push_str(",\"saves\":[");
        for (i, sp) in s.savepoints.iter().enumerate() {
            if i > 0 {
                out.push(',');
            }
            let _ = write!(
                out,
                "{{{},\"cs\":{},\"g0\":\"{}\",\"g1\":\"{}\",\"origin\":{},\"wrap\":{}}}",
                cursor_json(&sp.cursor),
                if sp.charset == Charset::G1 { 1 } else { 0 },
                charset_name(&sp.g0_charset),
                charset_name(&sp.g1_charset),
                sp.origin,
                sp.wrap
            );
        }
        out.push(']');
        let _ = write!(
            out,
            ",\"savedcols\":{}",
            s.saved_columns.map(|c| c as i64).unwrap_or(-1)
        );
        let _ = write!(out, ",\"dirty\":{}", list(&mut dirty));
        out.push_str(",\"cols\":[");
        for (i, c) in cols.iter().enumerate() {
            if i > 0 {
                out.push(',');
            }
            let _ = write!(out, "[{},{}]", jstr(c), cps(c));
        }
        out.push(']');
        let _ = write!(
            out,
            ",\"diag\":{{\"hrows\":{},\"hcells\":{},\"mat\":{}}}}}",
            hrows, hcells, mat
        );
        out
    }
}
