// Tap: a ParserListener that forwards every call to an (optional) inner Screen,
// records the call as an abstract event, and logs the projected state after it.
// With `scr = None` it is a pure recording listener (used for the recogniser
// and decoder properties).
use std::fmt::Write;
use std::panic::{catch_unwind, AssertUnwindSafe};

use memterm::parser_listener::ParserListener;
use memterm::screen::Screen;

use crate::project::{cps, grid_wm, wm_json, Projector};

#[derive(Clone, Debug)]
pub struct Ev {
    pub op: String,
    pub p: Vec<i64>,
    pub s: Vec<u32>,
    pub pr: bool,
    pub wm: String,
}

impl Ev {
    pub fn json(&self) -> String {
        let mut out = String::new();
        let _ = write!(out, "{{\"op\":\"{}\",\"p\":[", self.op);
        for (i, x) in self.p.iter().enumerate() {
            if i > 0 {
                out.push(',');
            }
            let _ = write!(out, "{}", x);
        }
        out.push_str("],\"s\":[");
        for (i, x) in self.s.iter().enumerate() {
            if i > 0 {
                out.push(',');
            }
            let _ = write!(out, "{}", x);
        }
        let _ = write!(out, "],\"pr\":{},\"wm\":{}}}", self.pr, if self.wm.is_empty() { "[]" } else { &self.wm });
        out
    }
}

pub fn str_cps(s: &str) -> Vec<u32> {
    s.chars().map(|c| c as u32).collect()
}

fn o(v: Option<u32>) -> i64 {
    v.map(|x| x as i64).unwrap_or(-1)
}

thread_local! {
    pub static LAST_PANIC: std::cell::RefCell<String> = std::cell::RefCell::new(String::new());
}

pub fn install_panic_hook() {
    std::panic::set_hook(Box::new(|info| {
        let msg = if let Some(s) = info.payload().downcast_ref::<&str>() {
            s.to_string()
        } else if let Some(s) = info.payload().downcast_ref::<String>() {
            s.clone()
        } else {
            "panic".to_string()
        };
        let loc = info
            .location()
            .map(|l| format!("{}:{}", l.file(), l.line()))
            .unwrap_or_default();
        LAST_PANIC.with(|p| *p.borrow_mut() = format!("{} @ {}", msg, loc));
    }));
}

pub fn take_panic() -> String {
    LAST_PANIC.with(|p| std::mem::take(&mut *p.borrow_mut()))
}

pub struct Tap {
    pub scr: Option<Screen>,
    pub events: Vec<Ev>,
    pub lines: Vec<String>,
    pub proj: Projector,
    pub src: &'static str,
    pub log_ops: bool,
    pub panics: u32,
}

impl Tap {
    pub fn new(scr: Option<Screen>) -> Self {
        Tap {
            scr,
            events: Vec::new(),
            lines: Vec::new(),
            proj: Projector::default(),
            src: "api",
            log_ops: true,
            panics: 0,
        }
    }

    pub fn project(&mut self) -> String {
        match &self.scr {
            Some(s) => self.proj.project(s),
            None => "{}".to_string(),
        }
    }

    /// log an embedder-level action (resize, cleardirty, ...) that was applied to the screen
    pub fn log_action(&mut self, ev: &Ev, panic: Option<String>, extra: &str) {
        if self.scr.is_some() && self.log_ops {
            let post = self.project();
            let mut l = String::new();
            let _ = write!(
                l,
                "{{\"k\":\"op\",\"src\":\"{}\",\"ev\":{},\"panic\":{}{}",
                self.src,
                ev.json(),
                panic.is_some(),
                extra
            );
            if let Some(m) = panic {
                let _ = write!(l, ",\"msg\":{}", serde_json::to_string(&m).unwrap());
            }
            let _ = write!(l, ",\"post\":{}}}", post);
            self.lines.push(l);
        }
    }

    fn call<F: FnOnce(&mut Screen)>(&mut self, op: &str, p: Vec<i64>, s: Vec<u32>, pr: bool, f: F) {
        let wm = if op == "draw" {
            wm_json(s.iter().filter_map(|c| char::from_u32(*c)))
        } else {
            String::new()
        };
        let ev = Ev { op: op.to_string(), p, s, pr, wm };
        self.events.push(ev.clone());
        if let Some(scr) = self.scr.as_mut() {
            let r = catch_unwind(AssertUnwindSafe(|| f(scr)));
            let panic = match r {
                Ok(()) => None,
                Err(_) => {
                    self.panics += 1;
                    Some(take_panic())
                }
            };
            self.log_action(&ev, panic, "");
        }
    }
}

impl ParserListener for Tap {
    fn alignment_display(&mut self) {
        self.call("decaln", vec![], vec![], false, |s| s.alignment_display())
    }
    fn define_charset(&mut self, code: &str, mode: &str) {
        self.call("charset", str_cps(mode).iter().map(|x| *x as i64).collect(), str_cps(code), false, |s| {
            s.define_charset(code, mode)
        })
    }
    fn reset(&mut self) {
        self.call("ris", vec![], vec![], false, |s| s.reset())
    }
    fn index(&mut self) {
        self.call("ind", vec![], vec![], false, |s| s.index())
    }
    fn linefeed(&mut self) {
        self.call("lf", vec![], vec![], false, |s| s.linefeed())
    }
    fn reverse_index(&mut self) {
        self.call("ri", vec![], vec![], false, |s| s.reverse_index())
    }
    fn set_tab_stop(&mut self) {
        self.call("hts", vec![], vec![], false, |s| s.set_tab_stop())
    }
    fn save_cursor(&mut self) {
        self.call("decsc", vec![], vec![], false, |s| s.save_cursor())
    }
    fn restore_cursor(&mut self) {
        self.call("decrc", vec![], vec![], false, |s| s.restore_cursor())
    }
    fn shift_out(&mut self) {
        self.call("so", vec![], vec![], false, |s| s.shift_out())
    }
    fn shift_in(&mut self) {
        self.call("si", vec![], vec![], false, |s| s.shift_in())
    }
    fn bell(&mut self) {
        self.call("bel", vec![], vec![], false, |s| s.bell())
    }
    fn backspace(&mut self) {
        self.call("bs", vec![], vec![], false, |s| s.backspace())
    }
    fn tab(&mut self) {
        self.call("ht", vec![], vec![], false, |s| s.tab())
    }
    fn cariage_return(&mut self) {
        self.call("cr", vec![], vec![], false, |s| s.cariage_return())
    }
    fn draw(&mut self, input: &str) {
        self.call("draw", vec![], str_cps(input), false, |s| s.draw(input))
    }
    fn insert_characters(&mut self, count: Option<u32>) {
        self.call("ich", vec![o(count)], vec![], false, |s| s.insert_characters(count))
    }
    fn cursor_up(&mut self, count: Option<u32>) {
        self.call("cuu", vec![o(count)], vec![], false, |s| s.cursor_up(count))
    }
    fn cursor_down(&mut self, count: Option<u32>) {
        self.call("cud", vec![o(count)], vec![], false, |s| s.cursor_down(count))
    }
    fn cursor_forward(&mut self, count: Option<u32>) {
        self.call("cuf", vec![o(count)], vec![], false, |s| s.cursor_forward(count))
    }
    fn cursor_back(&mut self, count: Option<u32>) {
        self.call("cub", vec![o(count)], vec![], false, |s| s.cursor_back(count))
    }
    fn cursor_down1(&mut self, count: Option<u32>) {
        self.call("cnl", vec![o(count)], vec![], false, |s| s.cursor_down1(count))
    }
    fn cursor_up1(&mut self, count: Option<u32>) {
        self.call("cpl", vec![o(count)], vec![], false, |s| s.cursor_up1(count))
    }
    fn cursor_to_column(&mut self, character: Option<u32>) {
        self.call("cha", vec![o(character)], vec![], false, |s| s.cursor_to_column(character))
    }
    fn cursor_position(&mut self, line: Option<u32>, character: Option<u32>) {
        self.call("cup", vec![o(line), o(character)], vec![], false, |s| {
            s.cursor_position(line, character)
        })
    }
    fn erase_in_display(&mut self, how: Option<u32>, private: Option<bool>) {
        self.call("ed", vec![o(how)], vec![], private.unwrap_or(false), |s| {
            s.erase_in_display(how, private)
        })
    }
    fn erase_in_line(&mut self, how: Option<u32>, private: Option<bool>) {
        self.call("el", vec![o(how)], vec![], private.unwrap_or(false), |s| {
            s.erase_in_line(how, private)
        })
    }
    fn insert_lines(&mut self, count: Option<u32>) {
        self.call("il", vec![o(count)], vec![], false, |s| s.insert_lines(count))
    }
    fn delete_lines(&mut self, count: Option<u32>) {
        self.call("dl", vec![o(count)], vec![], false, |s| s.delete_lines(count))
    }
    fn delete_characters(&mut self, count: Option<u32>) {
        self.call("dch", vec![o(count)], vec![], false, |s| s.delete_characters(count))
    }
    fn erase_characters(&mut self, count: Option<u32>) {
        self.call("ech", vec![o(count)], vec![], false, |s| s.erase_characters(count))
    }
    fn report_device_attributes(&mut self, mode: Option<u32>, private: Option<bool>) {
        self.call("da", vec![o(mode)], vec![], private.unwrap_or(false), |s| {
            s.report_device_attributes(mode, private)
        })
    }
    fn cursor_to_line(&mut self, line: Option<u32>) {
        self.call("vpa", vec![o(line)], vec![], false, |s| s.cursor_to_line(line))
    }
    fn clear_tab_stop(&mut self, how: Option<u32>) {
        self.call("tbc", vec![o(how)], vec![], false, |s| s.clear_tab_stop(how))
    }
    fn set_mode(&mut self, modes: &[u32], is_private: bool) {
        self.call("sm", modes.iter().map(|x| *x as i64).collect(), vec![], is_private, |s| {
            s.set_mode(modes, is_private)
        })
    }
    fn reset_mode(&mut self, modes: &[u32], is_private: bool) {
        self.call("rm", modes.iter().map(|x| *x as i64).collect(), vec![], is_private, |s| {
            s.reset_mode(modes, is_private)
        })
    }
    fn select_graphic_rendition(&mut self, modes: &[u32]) {
        self.call("sgr", modes.iter().map(|x| *x as i64).collect(), vec![], false, |s| {
            s.select_graphic_rendition(modes)
        })
    }
    fn set_title(&mut self, title: &str) {
        self.call("title", vec![], str_cps(title), false, |s| s.set_title(title))
    }
    fn set_icon_name(&mut self, icon_name: &str) {
        self.call("icon", vec![], str_cps(icon_name), false, |s| s.set_icon_name(icon_name))
    }
    fn set_margins(&mut self, top: Option<u32>, bottom: Option<u32>) {
        self.call("decstbm", vec![o(top), o(bottom)], vec![], false, |s| s.set_margins(top, bottom))
    }
    fn display(&mut self) -> Vec<String> {
        let wm = self.scr.as_ref().map(grid_wm).unwrap_or_default();
        let ev = Ev { op: "display".to_string(), p: vec![], s: vec![], pr: false, wm };
        self.events.push(ev.clone());
        let mut res: Vec<String> = Vec::new();
        if let Some(scr) = self.scr.as_mut() {
            let r = catch_unwind(AssertUnwindSafe(|| scr.display()));
            let panic = match r {
                Ok(v) => {
                    res = v;
                    None
                }
                Err(_) => {
                    self.panics += 1;
                    Some(take_panic())
                }
            };
            let mut extra = String::from(",\"disp\":[");
            for (i, row) in res.iter().enumerate() {
                if i > 0 {
                    extra.push(',');
                }
                extra.push_str(&cps(row));
            }
            extra.push(']');
            self.log_action(&ev, panic, &extra);
        }
        res
    }
}
