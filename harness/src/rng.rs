// Small deterministic PRNG (splitmix64 seeding + xorshift64*); no external crates.
pub struct Rng(u64);

impl Rng {
    pub fn new(seed: u64) -> Self {
        let mut z = seed.wrapping_add(0x9E3779B97F4A7C15);
        z = (z ^ (z >> 30)).wrapping_mul(0xBF58476D1CE4E5B9);
        z = (z ^ (z >> 27)).wrapping_mul(0x94D049BB133111EB);
        z ^= z >> 31;
        Rng(if z == 0 { 0x1234_5678_9abc_def1 } else { z })
    }
    pub fn next(&mut self) -> u64 {
        let mut x = self.0;
        x ^= x >> 12;
        x ^= x << 25;
        x ^= x >> 27;
        self.0 = x;
        x.wrapping_mul(0x2545F4914F6CDD1D)
    }
    /// uniform in 0..n (n > 0)
    pub fn below(&mut self, n: u64) -> u64 {
        self.next() % n
    }
    pub fn range(&mut self, lo: i64, hi: i64) -> i64 {
        lo + self.below((hi - lo + 1) as u64) as i64
    }
    pub fn chance(&mut self, num: u64, den: u64) -> bool {
        self.below(den) < num
    }
    pub fn pick<'a, T>(&mut self, xs: &'a [T]) -> &'a T {
        &xs[self.below(xs.len() as u64) as usize]
    }
}
