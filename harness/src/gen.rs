// Seeded history generators (random drivers).  They only *generate* inputs;
// nothing here knows what the right answer is.
use crate::machine::{hev, HEv, History};
use crate::rng::Rng;

fn getopt<'a>(opts: &'a [(String, String)], k: &str, d: &'a str) -> &'a str {
    opts.iter().find(|(a, _)| a == k).map(|(_, v)| v.as_str()).unwrap_or(d)
}

pub fn generate(driver: &str, seed: u64, count: u64, opts: &[(String, String)]) -> Vec<History> {
    let mut out = Vec::new();
    for i in 0..count {
        let mut rng = Rng::new(seed.wrapping_mul(1_000_003).wrapping_add(i));
        let h = match driver {
            "apiwalk" => apiwalk(&mut rng, i, opts),
            _ => panic!("unknown driver {}", driver),
        };
        out.push(h);
    }
    out
}

const GEOMS: &[(u32, u32)] = &[(1, 1), (2, 1), (1, 2), (2, 2), (3, 2), (2, 3), (3, 3), (4, 3), (5, 4), (8, 5)];

fn param(rng: &mut Rng, size: u32) -> i64 {
    match rng.below(10) {
        0 => -1,
        1 => 0,
        2 => 1,
        3 => 9999,
        4 => rng.range(0, 9999),
        _ => rng.range(0, size as i64 + 2),
    }
}

pub fn apiwalk(rng: &mut Rng, i: u64, opts: &[(String, String)]) -> History {
    let steps: u64 = getopt(opts, "steps", "60").parse().unwrap();
    let (c, l) = *rng.pick(GEOMS);
    let mut evs: Vec<HEv> = Vec::new();
    for _ in 0..steps {
        let port = "api";
        let e = match rng.below(16) {
            0 => hev("cuu", vec![param(rng, l)], vec![], false, port),
            1 => hev("cud", vec![param(rng, l)], vec![], false, port),
            2 => hev("cuf", vec![param(rng, c)], vec![], false, port),
            3 => hev("cub", vec![param(rng, c)], vec![], false, port),
            4 => hev("cup", vec![param(rng, l), param(rng, c)], vec![], false, port),
            5 => hev("cha", vec![param(rng, c)], vec![], false, port),
            6 => hev("vpa", vec![param(rng, l)], vec![], false, port),
            7 => hev("cnl", vec![param(rng, l)], vec![], false, port),
            8 => hev("cpl", vec![param(rng, l)], vec![], false, port),
            9 => hev("decstbm", vec![param(rng, l), param(rng, l)], vec![], false, port),
            10 => hev(if rng.chance(1, 2) { "sm" } else { "rm" }, vec![6], vec![], true, port),
            11 => hev("cr", vec![], vec![], false, port),
            12 => hev("bs", vec![], vec![], false, port),
            13 => hev("lf", vec![], vec![], false, port),
            _ => hev("draw", vec![], vec![97 + rng.below(26) as u32], false, port),
        };
        evs.push(e);
    }
    History { id: format!("apiwalk-{}", i), sid: String::new(), c, l, scr: true, utf8: true, evs }
}
