// Seeded history generators (random drivers).  They only *generate* inputs;
// nothing here knows what the right answer is.
use crate::machine::{encode, hev, HEv, History};
use crate::rng::Rng;

pub type Opts = [(String, String)];

pub fn getopt<'a>(opts: &'a Opts, k: &str, d: &'a str) -> &'a str {
    opts.iter().find(|(a, _)| a == k).map(|(_, v)| v.as_str()).unwrap_or(d)
}

pub fn generate(driver: &str, seed: u64, count: u64, opts: &Opts) -> Vec<History> {
    let mut out = Vec::new();
    for i in 0..count {
        let mut rng = Rng::new(seed.wrapping_mul(1_000_003).wrapping_add(i));
        match driver {
            "walk" => out.push(walk(&mut rng, i, opts)),
            "paired" => out.extend(paired(&mut rng, i, opts)),
            "star" => out.extend(star(&mut rng, i, opts)),
            "chunked" => out.extend(chunked(&mut rng, i, opts)),
            "soup" => out.extend(soup(&mut rng, i, opts)),
            "chunkedsoup" => out.extend(chunkedsoup(&mut rng, i, opts)),
            "captured" => out.extend(captured(&mut rng, i, opts)),
            "recsoup" => out.extend(recsoup(&mut rng, i, opts)),
            "bigchunk" => out.extend(bigchunk(&mut rng, i, opts)),
            _ => panic!("unknown driver {}", driver),
        }
    }
    out
}

const SMALL: &[(u32, u32)] = &[
    (1, 1), (2, 1), (1, 2), (2, 2), (3, 2), (2, 3), (3, 3), (4, 3), (5, 4), (8, 5), (3, 1), (1, 3), (6, 2), (9, 3), (17, 2),
];
const LARGE: &[(u32, u32)] = &[(80, 24), (132, 24), (140, 40), (20, 10), (40, 12)];

fn geom(rng: &mut Rng, opts: &Opts) -> (u32, u32) {
    match getopt(opts, "geom", "small") {
        "large" => *rng.pick(LARGE),
        "mixed" => if rng.chance(1, 4) { *rng.pick(LARGE) } else { *rng.pick(SMALL) },
        "tiny" => *rng.pick(&SMALL[..6]),
        g if g.contains('x') => {
            let (c, l) = g.split_once('x').unwrap();
            (c.parse().unwrap(), l.parse().unwrap())
        }
        _ => *rng.pick(SMALL),
    }
}

/// numeric parameter classes {absent, 0, 1, .., size+2, 9999} plus uniform 0..=9999
fn param(rng: &mut Rng, size: u32) -> i64 {
    match rng.below(12) {
        0 => -1,
        1 => 0,
        2 => 1,
        3 => 9999,
        4 => rng.range(0, 9999),
        5 => size as i64,
        6 => size as i64 + 1,
        _ => rng.range(0, size as i64 + 2),
    }
}

// one representative (or a few) per character class the code distinguishes
const NARROW: &[u32] = &[0x61, 0x62, 0x63, 0x64, 0x65, 0x66, 0x67, 0x68, 0x41, 0x5a, 0x30, 0x7e, 0x20, 0x5f, 0x71, 0x78];
const LATIN1: &[u32] = &[0xe9, 0xa0, 0xff, 0xb1, 0xe0];
// (0x107, 0x11b, 0x29c, 0x279c, 0x4e07, 0x4e1b: low byte equal to BEL / ESC / ST - a truncating cast would confuse them with controls)
const ABOVE: &[u32] = &[0x436, 0x3b1, 0x2500, 0x263a, 0x2764, 0x107, 0x11b, 0x29c, 0x279c];
const WIDE: &[u32] = &[0x4e00, 0x65e5, 0x30b3, 0x4e07, 0x4e1b];
const COMBINING: &[u32] = &[0x336, 0x20dd, 0xfe0f]; // U+FE0F: a cluster whose string width differs from its first character's
// characters that are combining marks for the normalisation crate AND have a display width: spacing marks (Mc, width 1) and
// the one wide one; they are drawn like any other printable character (`harness classes` lists every class)
// (the wide mark U+16FF0 has a non-zero canonical combining class: the NFC normalisation of a cell reorders it with later marks,
// which the property does not describe - it is drawn on its own in the C04 sweep only)
const SPACINGMARK: &[u32] = &[0x903, 0x93e];
const ZEROWIDTH: &[u32] = &[0x200b, 0xad, 0x61c];
const UNPRINT: &[u32] = &[0x00, 0x01, 0x7f, 0x85];

fn text_char(rng: &mut Rng) -> u32 {
    match rng.below(20) {
        0..=8 => *rng.pick(NARROW),
        9 => *rng.pick(SPACINGMARK),
        10 => *rng.pick(LATIN1),
        11 | 12 => *rng.pick(ABOVE),
        13..=15 => *rng.pick(WIDE),
        16 | 17 => *rng.pick(COMBINING),
        18 => *rng.pick(ZEROWIDTH),
        _ => *rng.pick(UNPRINT),
    }
}

fn text(rng: &mut Rng, maxlen: u64) -> Vec<u32> {
    // now and then a long run: behaviour that differs for the 2nd wrap / the 30th character of one call
    if rng.chance(1, 60) {
        // one cell piled up with more marks than a bounded normaliser buffer holds
        let k = *rng.pick(&[29u64, 30, 31, 32, 33, 40]);
        let mark = *rng.pick(&[0x336u32, 0x20dd]);
        let mut v = vec![*rng.pick(NARROW)];
        v.extend((0..k).map(|_| mark));
        v.push(*rng.pick(NARROW));
        return v;
    }
    let n = if rng.chance(1, 24) { 7 + rng.below(40) } else { 1 + rng.below(maxlen) };
    (0..n).map(|_| text_char(rng)).collect()
}

/// printable text only (safe inside any wire context)
fn plain(rng: &mut Rng, maxlen: u64) -> Vec<u32> {
    let n = if rng.chance(1, 24) { *rng.pick(&[7u64, 15, 16, 17, 31, 33, 64, 65, 130, 257, 600]) } else { 1 + rng.below(maxlen) };
    (0..n)
        .map(|_| match rng.below(10) {
            0 => *rng.pick(WIDE),
            1 => *rng.pick(ABOVE),
            2 => *rng.pick(COMBINING),
            3 => *rng.pick(SPACINGMARK),
            _ => *rng.pick(NARROW),
        })
        .collect()
}

const SGR_CODES: &[i64] = &[
    0, 1, 3, 4, 5, 7, 9, 22, 23, 24, 25, 27, 29, 30, 31, 32, 33, 34, 35, 36, 37, 39, 40, 41, 42, 43, 44, 45, 46, 47, 49,
    90, 91, 97, 100, 101, 107, 2, 6, 8, 21, 26, 28, 50, 99, 108, 256,
];

fn sgr_list(rng: &mut Rng) -> Vec<i64> {
    let mut v = Vec::new();
    // now and then a list longer than any fixed-size parameter buffer
    let n = if rng.chance(1, 30) { *rng.pick(&[15u64, 16, 17, 31, 32, 33, 40, 64, 70]) } else { rng.below(4) };
    for _ in 0..=n {
        match rng.below(12) {
            0 => {
                let k = if rng.chance(1, 2) { 38 } else { 48 };
                v.push(k);
                match rng.below(6) {
                    0 => {}
                    1 => v.push(rng.range(0, 9)),
                    2 => {
                        v.push(5);
                        if rng.chance(4, 5) { v.push(rng.range(0, 300)); }
                    }
                    _ => {
                        v.push(2);
                        let m = rng.below(4);
                        for _ in 0..=m.min(2) {
                            v.push(if rng.chance(1, 8) { rng.range(256, 9999) } else { rng.range(0, 255) });
                        }
                        if m < 3 && rng.chance(1, 2) { v.pop(); }
                    }
                }
            }
            1 => v.push(rng.range(0, 9999)),
            2 => v.push(rng.range(0, 110)),
            _ => v.push(*rng.pick(SGR_CODES)),
        }
    }
    v
}

fn mode_event(rng: &mut Rng, port: &str) -> HEv {
    let op = if rng.chance(1, 2) { "sm" } else { "rm" };
    let mut ps = Vec::new();
    let n = 1 + rng.below(3).min(rng.below(3));
    let pr = rng.chance(2, 3);
    for _ in 0..n {
        let m = if pr {
            match rng.below(10) {
                0 => rng.range(0, 9999),
                1 => 4,
                2 => 20,
                _ => *rng.pick(&[3i64, 5, 6, 7, 25, 5, 6, 7, 25]),
            }
        } else {
            match rng.below(10) {
                0 => rng.range(0, 9999),
                1 | 2 | 3 => *rng.pick(&[96i64, 160, 192, 224, 800]), // 32 x private number
                4 => *rng.pick(&[3i64, 5, 6, 7, 25]),
                _ => *rng.pick(&[4i64, 20]),
            }
        };
        ps.push(m);
    }
    hev(op, ps, vec![], pr, port)
}

#[derive(Clone, Copy, PartialEq)]
pub enum Grp { Move, Tabs, Scroll, Erase, Edit, Sgr, Mode, Save, Reset, Charset, Osc, Draw, Resize, Display, Clear, Misc }

fn weights(focus: &str) -> Vec<(Grp, u64)> {
    let mut w = vec![
        (Grp::Move, 14), (Grp::Tabs, 4), (Grp::Scroll, 10), (Grp::Erase, 6), (Grp::Edit, 6), (Grp::Sgr, 6),
        (Grp::Mode, 6), (Grp::Save, 4), (Grp::Reset, 1), (Grp::Charset, 3), (Grp::Osc, 2), (Grp::Draw, 24),
        (Grp::Resize, 2), (Grp::Display, 3), (Grp::Clear, 3), (Grp::Misc, 1),
    ];
    let boost: &[Grp] = match focus {
        "C04" => &[Grp::Draw, Grp::Mode],
        "C05" => &[Grp::Move, Grp::Scroll],
        "C06" => &[Grp::Scroll],
        "C07" => &[Grp::Erase],
        "C08" => &[Grp::Sgr],
        "C10" => &[Grp::Display, Grp::Draw, Grp::Edit],
        "C12" => &[Grp::Mode],
        "C13" => &[Grp::Edit],
        "C14" => &[Grp::Save, Grp::Mode, Grp::Charset, Grp::Resize],
        "C15" => &[Grp::Reset],
        "C16" => &[Grp::Resize, Grp::Edit],
        "C17" => &[Grp::Clear, Grp::Mode],
        "C18" => &[Grp::Tabs, Grp::Resize],
        "C19" => &[Grp::Osc],
        "C20" => &[Grp::Charset, Grp::Draw],
        _ => &[],
    };
    for (g, x) in w.iter_mut() {
        if boost.contains(g) { *x *= 6; }
    }
    w
}

fn pick_grp(rng: &mut Rng, w: &[(Grp, u64)]) -> Grp {
    let tot: u64 = w.iter().map(|x| x.1).sum();
    let mut r = rng.below(tot);
    for (g, x) in w {
        if r < *x { return *g; }
        r -= *x;
    }
    Grp::Draw
}

/// one random abstract event for a screen of (roughly) c x l
pub fn event(rng: &mut Rng, w: &[(Grp, u64)], c: u32, l: u32, port: &str, eightbit: bool) -> HEv {
    let wire = port != "api";
    let e = match pick_grp(rng, w) {
        Grp::Move => match rng.below(13) {
            0 => hev("cuu", vec![param(rng, l)], vec![], false, port),
            1 => hev("cud", vec![param(rng, l)], vec![], false, port),
            2 => hev("cuf", vec![param(rng, c)], vec![], false, port),
            3 => hev("cub", vec![param(rng, c)], vec![], false, port),
            4 => hev("cnl", vec![param(rng, l)], vec![], false, port),
            5 => hev("cpl", vec![param(rng, l)], vec![], false, port),
            6 => hev("cha", vec![param(rng, c)], vec![], false, port),
            7 => hev("vpa", vec![param(rng, l)], vec![], false, port),
            8 => hev(if wire && rng.chance(1, 2) { "hvp" } else { "cup" }, vec![param(rng, l), param(rng, c)], vec![], false, port),
            9 => hev("bs", vec![], vec![], false, port),
            10 => hev("cr", vec![], vec![], false, port),
            11 => hev(if wire { "hpr" } else { "cuf" }, vec![param(rng, c)], vec![], false, port),
            _ => hev(if wire { "vpr" } else { "cud" }, vec![param(rng, l)], vec![], false, port),
        },
        Grp::Tabs => match rng.below(4) {
            0 | 1 => hev("ht", vec![], vec![], false, port),
            2 => hev("hts", vec![], vec![], false, port),
            _ => hev("tbc", vec![*rng.pick(&[-1i64, 0, 3, 3, 1, 2, 9999])], vec![], false, port),
        },
        Grp::Scroll => match rng.below(9) {
            0 => hev("ind", vec![], vec![], false, port),
            1 | 2 => hev(if wire { *rng.pick(&["lf", "vt", "ff", "nel"]) } else { "lf" }, vec![], vec![], false, port),
            3 | 4 => hev("ri", vec![], vec![], false, port),
            5 => hev("il", vec![param(rng, l)], vec![], false, port),
            6 => hev("dl", vec![param(rng, l)], vec![], false, port),
            _ => hev("decstbm", vec![param(rng, l), param(rng, l)], vec![], false, port),
        },
        Grp::Erase => match rng.below(3) {
            0 => hev("ed", vec![*rng.pick(&[-1i64, 0, 1, 2, 3, 4, 5, 9999])], vec![], false, port),
            1 => hev("el", vec![*rng.pick(&[-1i64, 0, 1, 2, 3, 4, 5, 9999])], vec![], false, port),
            _ => hev("ech", vec![param(rng, c)], vec![], false, port),
        },
        Grp::Edit => match rng.below(2) {
            0 => hev("ich", vec![param(rng, c)], vec![], false, port),
            _ => hev("dch", vec![param(rng, c)], vec![], false, port),
        },
        Grp::Sgr => hev("sgr", sgr_list(rng), vec![], false, port),
        Grp::Mode => mode_event(rng, port),
        Grp::Save => hev(if rng.chance(1, 2) { "decsc" } else { "decrc" }, vec![], vec![], false, port),
        Grp::Reset => hev(if rng.chance(2, 3) { "ris" } else { "decaln" }, vec![], vec![], false, port),
        Grp::Charset => match rng.below(4) {
            0 => hev("so", vec![], vec![], false, port),
            1 => hev("si", vec![], vec![], false, port),
            _ => hev(
                "charset",
                vec![*rng.pick(&[40i64, 41])],
                vec![*rng.pick(&[0x42u32, 0x30, 0x55, 0x56, 0x42, 0x30, 0x55, 0x56, 0x41, 0x4b, 0x31])],
                false,
                port,
            ),
        },
        Grp::Osc => hev(if rng.chance(1, 2) { "title" } else { "icon" }, vec![], if rng.chance(1, 6) { vec![] } else { plain(rng, 6) }, false, port),
        Grp::Draw => {
            let t = if eightbit {
                let n = 1 + rng.below(5);
                (0..n).map(|_| if rng.chance(1, 2) { rng.range(0x20, 0x7e) as u32 } else { rng.range(0xa0, 0xff) as u32 }).collect()
            } else if wire { plain(rng, 6) } else { text(rng, 6) };
            hev("draw", vec![], t, false, port)
        }
        Grp::Resize => {
            let nl = if rng.chance(1, 5) { -1 } else { rng.range(1, l as i64 + 2) };
            let nc = if rng.chance(1, 5) { -1 } else { rng.range(1, c as i64 + 2) };
            hev("resize", vec![nl, nc], vec![], false, "api")
        }
        Grp::Display => hev("display", vec![], vec![], false, "api"),
        Grp::Clear => hev("cleardirty", vec![], vec![], false, "api"),
        Grp::Misc => hev(if rng.chance(1, 2) { "bel" } else { "da" }, vec![*rng.pick(&[-1i64, 0, 1])], vec![], false, port),
    };
    // DA's parameter only for da
    if e.ev.op == "bel" {
        return hev("bel", vec![], vec![], false, port);
    }
    e
}

/// random walk over the whole operation alphabet, one event per call / feed
pub fn walk(rng: &mut Rng, i: u64, opts: &Opts) -> History {
    let steps: u64 = getopt(opts, "steps", "60").parse().unwrap();
    let focus = getopt(opts, "focus", "");
    let port = getopt(opts, "port", "api");
    let utf8 = getopt(opts, "utf8", "1") != "0";
    let (c, l) = geom(rng, opts);
    let w = weights(focus);
    let mut evs: Vec<HEv> = Vec::new();
    for _ in 0..steps {
        let p = if port == "mix" { *rng.pick(&["api", "chars"]) } else { port };
        evs.push(event(rng, &w, c, l, p, !utf8 && p != "api"));
    }
    History { id: format!("walk-{}-{}-{}", port, focus, i), sid: String::new(), cmp: String::new(), c, l, scr: true, utf8, evs, setup: vec![], dispsetup: false }
}

/// star exploration: at several nodes of a random walk, every kind of operation is tried once from
/// the state reached there (the walk prefix is the setup: executed on the real code, not logged)
pub fn star(rng: &mut Rng, i: u64, opts: &Opts) -> Vec<History> {
    let base = walk(rng, i, opts);
    let focus = getopt(opts, "focus", "");
    let w = weights(focus);
    let every: usize = getopt(opts, "every", "6").parse().unwrap();
    let per: u64 = getopt(opts, "per", "24").parse().unwrap();
    let mut out = Vec::new();
    let mut k = every;
    while k <= base.evs.len() {
        for j in 0..per {
            let e = event(rng, &w, base.c, base.l, "api", false);
            out.push(History {
                id: format!("star-{}-{}-{}", i, k, j), sid: String::new(), cmp: String::new(), c: base.c, l: base.l, scr: true, utf8: true,
                evs: vec![e], setup: base.evs[..k].to_vec(), dispsetup: false,
            });
        }
        k += every;
    }
    out
}

/// the same history with display() interposed at no position and at a random
/// subset of positions (C10); both members carry the same sid
pub fn paired(rng: &mut Rng, i: u64, opts: &Opts) -> Vec<History> {
    let base = walk(rng, i, opts);
    let evs: Vec<HEv> = base.evs.iter().filter(|e| e.ev.op != "display").cloned().collect();
    let sid = format!("pair-{}", i);
    let a = History { id: format!("pair-{}-a", i), sid: sid.clone(), cmp: "C10".into(), evs: evs.clone(), ..base.clone() };
    let mut bevs = Vec::new();
    for e in &evs {
        if rng.chance(1, 3) {
            bevs.push(hev("display", vec![], vec![], false, "api"));
        }
        bevs.push(e.clone());
    }
    let b = History { id: format!("pair-{}-b", i), sid, cmp: "C10".into(), evs: bevs, ..base };
    vec![a, b]
}

fn token_stream(rng: &mut Rng, opts: &Opts, c: u32, l: u32, utf8: bool) -> Vec<u32> {
    let n: u64 = getopt(opts, "tokens", "25").parse().unwrap();
    let w = weights(getopt(opts, "focus", ""));
    let mut s: Vec<u32> = Vec::new();
    for _ in 0..n {
        let e = event(rng, &w, c, l, "chars", !utf8);
        if matches!(e.ev.op.as_str(), "resize" | "display" | "cleardirty") { continue; }
        if let Some(enc) = encode(&e.ev) {
            s.extend(enc.chars().map(|ch| ch as u32));
        }
    }
    s
}

fn cut_points(rng: &mut Rng, len: usize, style: u64) -> Vec<usize> {
    // returns sorted cut offsets in 1..len
    let mut cuts = Vec::new();
    if len < 2 { return cuts; }
    match style {
        0 => {}
        1 => cuts.extend(1..len),
        2 => cuts.push(1 + rng.below(len as u64 - 1) as usize),
        _ => {
            let k = 1 + rng.below(8);
            for _ in 0..k { cuts.push(1 + rng.below(len as u64 - 1) as usize); }
            cuts.sort();
            cuts.dedup();
        }
    }
    cuts
}

fn utf8_bytes(s: &[u32]) -> Vec<u8> {
    s.iter().map(|c| char::from_u32(*c).unwrap_or('\u{fffd}')).collect::<String>().into_bytes()
}

/// one generated session fed whole, one unit at a time, with one random cut and
/// with random k-way cuts -- through Parser (chars) and ByteParser (bytes) (C02)
pub fn chunked(rng: &mut Rng, i: u64, opts: &Opts) -> Vec<History> {
    let utf8 = getopt(opts, "utf8", "1") != "0";
    let (c, l) = geom(rng, opts);
    let s = token_stream(rng, opts, c, l, utf8);
    let mut out = Vec::new();
    for port in ["chars", "bytes"] {
        let sid = format!("chunk-{}-{}", i, port);
        let bytes: Vec<u8> = if utf8 { utf8_bytes(&s) } else { s.iter().filter(|c| **c < 256).map(|c| *c as u8).collect() };
        let len = if port == "chars" { s.len() } else { bytes.len() };
        for style in 0..5u64 {
            let cuts = cut_points(rng, len, style.min(3));
            let mut evs = Vec::new();
            let mut prev = 0usize;
            let mut bounds = cuts.clone();
            bounds.push(len);
            for b in bounds {
                if style == 4 && rng.chance(1, 3) {
                    // an empty chunk is a no-op
                    evs.push(if port == "chars" { hev("feed", vec![], vec![], false, "chars") } else { HEv { b: vec![], ..hev("feedb", vec![], vec![], false, "bytes") } });
                }
                if port == "chars" {
                    evs.push(hev("feed", vec![], s[prev..b].to_vec(), false, "chars"));
                } else {
                    evs.push(HEv { b: bytes[prev..b].to_vec(), ..hev("feedb", vec![], vec![], false, "bytes") });
                }
                prev = b;
            }
            out.push(History { id: format!("{}-{}", sid, style), sid: sid.clone(), cmp: "C02".into(), c, l, scr: true, utf8, evs, setup: vec![], dispsetup: false });
        }
    }
    out
}

fn soup_bytes(rng: &mut Rng, n: u64, c: u32, l: u32, utf8: bool) -> Vec<u8> {
    let w = weights("");
    let mut bytes: Vec<u8> = Vec::new();
    while (bytes.len() as u64) < n {
        match rng.below(12) {
            0 => bytes.push(rng.below(256) as u8),
            1 => bytes.push(rng.below(32) as u8),
            2 => bytes.push(0x80 + rng.below(32) as u8),
            3 => bytes.extend_from_slice(*rng.pick(&[&b"\x1b["[..], b"\x1b]", b"\x1b", b"\x9b", b"\x9d", b"\x1b(", b"\x1b#", b"\x1b%", b"\x18", b"\x1a", b"\x9c", b"\x1b\\", b"\x07",
                                                         b"\x1b%@", b"\x1b%G", b"\x1b%8", b"\x0e", b"\x0f", b"\x1b)0", b"\x1b(U"])),
            4 => bytes.extend_from_slice(*rng.pick(&[&b";"[..], b"?", b"$", b" ", b">", b"0", b"1", b"9", b"99999999999999999999999", b"5", b"2"])),
            5 => {
                // a well-formed multi-byte character, possibly truncated
                let ch = *rng.pick(&[0xe9u32, 0x436, 0x4e00, 0x1f600, 0x336, 0x200b, 0xfeff, 0x9b, 0x9d, 0x9c]);
                let mut b = utf8_bytes(&[ch]);
                if rng.chance(1, 4) { b.pop(); }
                bytes.extend(b);
            }
            6 => bytes.extend_from_slice(*rng.pick(&[&b"\xc0\x80"[..], b"\xed\xa0\x80", b"\xf4\x90\x80\x80", b"\xff", b"\xfe", b"\xe0\x80", b"\xf0\x80\x80", b"\xc2", b"\xe2\x82", b"\xf0\x9f\x98", b"\xef\xbb\xbf"])),
            _ => {
                let e = event(rng, &w, c, l, "chars", !utf8);
                if matches!(e.ev.op.as_str(), "resize" | "display" | "cleardirty") { continue; }
                if let Some(enc) = encode(&e.ev) {
                    let mut b = enc.into_bytes();
                    if rng.chance(1, 6) && b.len() > 1 { let k = 1 + rng.below(b.len() as u64 - 1) as usize; b.truncate(k); }
                    bytes.extend(b);
                }
            }
        }
    }
    bytes
}

/// byte soup: every C0/C1 control, truncated and garbled escape sequences,
/// invalid and split UTF-8, random chunking, both parser modes (C01, C09)
pub fn soup(rng: &mut Rng, i: u64, opts: &Opts) -> Vec<History> {
    let n: u64 = getopt(opts, "bytes", "120").parse().unwrap();
    let utf8 = if getopt(opts, "utf8", "mix") == "mix" { rng.chance(2, 3) } else { getopt(opts, "utf8", "1") != "0" };
    let (c, l) = geom(rng, opts);
    let bytes = soup_bytes(rng, n, c, l, utf8);
    let mut evs = Vec::new();
    let cuts = cut_points(rng, bytes.len(), 3);
    let mut prev = 0usize;
    let mut bounds = cuts;
    bounds.push(bytes.len());
    for b in bounds {
        evs.push(HEv { b: bytes[prev..b].to_vec(), ..hev("feedb", vec![], vec![], false, "bytes") });
        prev = b;
        match rng.below(14) {
            0 => evs.push(hev("display", vec![], vec![], false, "api")),
            1 => evs.push(hev("resize", vec![rng.range(1, l as i64 + 2), rng.range(1, c as i64 + 2)], vec![], false, "api")),
            2 => evs.push(hev("utf8", vec![if rng.chance(1, 2) { 1 } else { 0 }], vec![], false, "api")),
            3 => {
                // a round trip through 8-bit mode (a tail pending before it must not survive)
                evs.push(hev("utf8", vec![0], vec![], false, "api"));
                if rng.chance(1, 2) { evs.push(HEv { b: vec![0x62], ..hev("feedb", vec![], vec![], false, "bytes") }); }
                evs.push(hev("utf8", vec![1], vec![if rng.chance(1, 2) { 0x47 } else { 0x38 }], false, "api"));
            }
            _ => {}
        }
    }
    // wedge probe: the universal reset word, then a probe character
    evs.push(HEv { b: vec![0x18, 0x07, 0x07], ..hev("feedb", vec![], vec![], false, "bytes") });
    evs.push(HEv { b: vec![0x50], ..hev("feedb", vec![1], vec![], false, "bytes") }); // p = [1]: the probe
    evs.push(hev("display", vec![], vec![], false, "api"));
    vec![History { id: format!("soup-{}", i), sid: String::new(), cmp: String::new(), c, l, scr: true, utf8, evs, setup: vec![], dispsetup: false }]
}

/// the same byte soup (malformed and truncated UTF-8, garbled sequences) under several
/// chunkings, compared under C02
pub fn chunkedsoup(rng: &mut Rng, i: u64, opts: &Opts) -> Vec<History> {
    let n: u64 = getopt(opts, "bytes", "60").parse().unwrap();
    let utf8 = getopt(opts, "utf8", "1") != "0";
    let (c, l) = geom(rng, opts);
    let bytes = soup_bytes(rng, n, c, l, utf8);
    let sid = format!("csoup-{}", i);
    let mut out = Vec::new();
    for style in 0..9u64 {
        // styles 6..8: byte-at-a-time / one cut / k-way cuts with an empty feed() after every chunk
        let cuts = cut_points(rng, bytes.len(), if style >= 6 { style - 5 } else { style.min(3) });
        let mut evs = Vec::new();
        let mut prev = 0usize;
        let mut bounds = cuts;
        bounds.push(bytes.len());
        for b in bounds {
            evs.push(HEv { b: bytes[prev..b].to_vec(), ..hev("feedb", vec![], vec![], false, "bytes") });
            if style >= 6 {
                evs.push(HEv { b: vec![], ..hev("feedb", vec![], vec![], false, "bytes") });
            }
            prev = b;
        }
        out.push(History { id: format!("{}-{}", sid, style), sid: sid.clone(), cmp: "C02".into(), c, l, scr: true, utf8, evs, setup: vec![], dispsetup: false });
    }
    out
}

/// one feed() call of several thousand bytes (around the sizes of internal scratch buffers), with a sequence pending
/// from the previous call, an ill-formed byte at the start, or a sequence left pending at the end (C11, C02, C01)
pub fn bigchunk(rng: &mut Rng, i: u64, _opts: &Opts) -> Vec<History> {
    let sizes = [4097usize, 4200, 1025, 4096, 4095, 2048, 1024, 4094, 4100, 4093, 1020, 4090];
    let n = sizes[(i as usize) % sizes.len()];
    let ascii = |k: usize, rng: &mut Rng| -> Vec<u8> { (0..k).map(|j| if j % 61 == 60 { b' ' } else { b'a' + rng.below(26) as u8 }).collect() };
    let mut out = Vec::new();
    let mk = |id: String, chunks: Vec<Vec<u8>>| History {
        id, sid: String::new(), cmp: String::new(), c: 4, l: 3, scr: false, utf8: true,
        evs: chunks.into_iter().map(|b| HEv { b, ..hev("feedb", vec![], vec![], false, "bytes") }).collect(),
        setup: vec![], dispsetup: false,
    };
    let a = ascii(n, rng);
    out.push(mk(format!("big-{}-pend", i), vec![vec![0xe2], [&[0x82u8, 0xac][..], &a[..]].concat()]));
    match rng.below(3) {
        0 => out.push(mk(format!("big-{}-ill", i), vec![[&[0x80u8][..], &a[..]].concat()])),
        1 => out.push(mk(format!("big-{}-tail", i), vec![[&a[..], &[0xe2u8, 0x82][..]].concat(), vec![0xac, b'z']])),
        _ => {
            let mut multi = Vec::new();
            for j in 0..n / 3 { multi.extend_from_slice(if j % 7 == 3 { &[0xf0, 0x9f, 0x98, 0x80][..] } else { &[0xc3, 0xa9][..] }); }
            out.push(mk(format!("big-{}-multi", i), vec![vec![0xc3], [&[0xa9u8][..], &multi[..], &[0xe6u8, 0x97][..]].concat(), vec![0xa5]]));
        }
    }
    out
}

/// recogniser-level soup over the class alphabet, recording listener only (C03, C11, C19)
pub fn recsoup(rng: &mut Rng, i: u64, opts: &Opts) -> Vec<History> {
    let n: u64 = getopt(opts, "chars", "80").parse().unwrap();
    let utf8 = if getopt(opts, "utf8", "mix") == "mix" { rng.chance(1, 2) } else { getopt(opts, "utf8", "1") != "0" };
    let port = getopt(opts, "port", "chars");
    const CLASS: &[u32] = &[
        0x07, 0x08, 0x09, 0x0a, 0x0b, 0x0c, 0x0d, 0x0e, 0x0f, 0x18, 0x1a, 0x1b, 0x1b, 0x1b, 0x9b, 0x9d, 0x9c, 0x00, 0x01, 0x7f,
        0x30, 0x31, 0x39, 0x35, 0x3b, 0x3b, 0x3f, 0x24, 0x20, 0x3e, 0x23, 0x25, 0x28, 0x29, 0x5b, 0x5b, 0x5d, 0x5d, 0x5c,
        0x40, 0x41, 0x42, 0x43, 0x44, 0x45, 0x46, 0x47, 0x48, 0x4a, 0x4b, 0x4c, 0x4d, 0x50, 0x58, 0x61, 0x63, 0x64, 0x65,
        0x66, 0x67, 0x68, 0x6c, 0x6d, 0x72, 0x37, 0x38, 0x73, 0x75, 0x6e, 0x53, 0x54, 0x52, 0x70, 0x55, 0x56, 0x78, 0x7a, 0xe9, 0x436, 0x4e00,
    ];
    let mut s: Vec<u32> = Vec::new();
    while (s.len() as u64) < n {
        match rng.below(10) {
            0 => {
                // digit run, sometimes longer than any machine integer
                if rng.chance(1, 4) {
                    // a value just above a power of two: what a narrowing cast before the 9999 cap would turn into a small number
                    let v = *rng.pick(&["256", "261", "65536", "65541", "4294967296", "4294967301", "18446744073709551616", "18446744073709551621"]);
                    s.extend(v.chars().map(|c| c as u32));
                } else {
                    let k = *rng.pick(&[1u64, 2, 4, 5, 19, 20, 21, 40]);
                    for _ in 0..k { s.push(0x30 + rng.below(10) as u32); }
                }
            }
            1 => {
                // an OSC string
                s.extend_from_slice(if rng.chance(1, 2) { &[0x1b, 0x5d] } else { &[0x9d] });
                s.push(*rng.pick(&[0x30u32, 0x31, 0x32, 0x33, 0x39, 0x61]));
                s.push(0x3b);
                let k = rng.below(6);
                for _ in 0..k { s.push(*rng.pick(&[0x61u32, 0x3b, 0x5c, 0x5d, 0x20, 0xe9, 0x4e00, 0x01, 0x62])); }
                match rng.below(4) { 0 => s.push(0x07), 1 => s.push(0x9c), 2 => s.extend_from_slice(&[0x1b, 0x5c]), _ => {} }
            }
            _ => s.push(*rng.pick(CLASS)),
        }
    }
    if !utf8 { for c in s.iter_mut() { if *c > 255 { *c = 0xe9; } } }
    // OSC codes R, p, P are outside the documented grammar (DESIGN 5.3): avoid them after an OSC introducer
    for k in 0..s.len() {
        let after_osc = (k >= 1 && s[k - 1] == 0x9d) || (k >= 2 && s[k - 2] == 0x1b && s[k - 1] == 0x5d);
        if after_osc && (s[k] == 0x52 || s[k] == 0x70 || s[k] == 0x50) { s[k] = 0x32; }
        // OSC 0/1/2 not followed by `;` is outside the statement of C19: make it well-formed
        if after_osc && (0x30..=0x32).contains(&s[k]) && k + 1 < s.len() && s[k + 1] != 0x3b { s[k + 1] = 0x3b; }
    }
    let mut evs = Vec::new();
    let cuts = cut_points(rng, s.len(), 3);
    let mut prev = 0usize;
    let mut bounds = cuts;
    bounds.push(s.len());
    for b in bounds {
        if port == "chars" {
            evs.push(hev("feed", vec![], s[prev..b].to_vec(), false, "chars"));
        } else {
            let bytes = if utf8 { utf8_bytes(&s[prev..b]) } else { s[prev..b].iter().map(|c| *c as u8).collect() };
            evs.push(HEv { b: bytes, ..hev("feedb", vec![], vec![], false, "bytes") });
        }
        prev = b;
    }
    vec![History { id: format!("recsoup-{}-{}", port, i), sid: String::new(), cmp: String::new(), c: 4, l: 3, scr: false, utf8, evs, setup: vec![], dispsetup: false }]
}

/// the repository's captured sessions, cut at random offsets
pub fn captured(rng: &mut Rng, i: u64, opts: &Opts) -> Vec<History> {
    let dir = getopt(opts, "dir", "/repo/assets/captured");
    let names = ["cat-gpl3", "find-etc", "htop", "ls", "mc", "top", "vi"];
    let name = getopt(opts, "name", names[(i % 7) as usize]);
    let data = std::fs::read(format!("{}/{}.input", dir, name)).expect("captured input");
    let maxb: usize = getopt(opts, "maxbytes", "4000").parse().unwrap();
    let data = &data[..data.len().min(maxb)];
    let sid = format!("cap-{}-{}", name, i);
    let mut out = Vec::new();
    for style in [0u64, 2, 3] {
        let cuts = cut_points(rng, data.len(), style);
        let mut evs = Vec::new();
        let mut prev = 0usize;
        let mut bounds = cuts;
        bounds.push(data.len());
        for b in bounds {
            evs.push(HEv { b: data[prev..b].to_vec(), ..hev("feedb", vec![], vec![], false, "bytes") });
            prev = b;
        }
        evs.push(hev("display", vec![], vec![], false, "api"));
        out.push(History { id: format!("{}-{}", sid, style), sid: sid.clone(), cmp: "C02".into(), c: 80, l: 24, scr: true, utf8: true, evs, setup: vec![], dispsetup: false });
    }
    out
}
