// The machine under test: a Tap (optionally wrapping a Screen) driven through
// three ports: api (direct ParserListener calls), chars (Parser::feed) and
// bytes (ByteParser::feed).
use std::fmt::Write;
use std::panic::{catch_unwind, AssertUnwindSafe};
use std::sync::{Arc, Mutex};

use memterm::byte_parser::ByteParser;
use memterm::parser::Parser;
use memterm::parser_listener::ParserListener;
use memterm::screen::Screen;
use serde_json::Value;

use crate::tap::{take_panic, Ev, Tap};

#[derive(Clone, Debug)]
pub struct HEv {
    pub ev: Ev,
    pub port: String,   // api | chars | bytes
    pub b: Vec<u8>,     // for feedb
}

pub fn hev(op: &str, p: Vec<i64>, s: Vec<u32>, pr: bool, port: &str) -> HEv {
    HEv { ev: Ev { op: op.to_string(), p, s, pr, wm: String::new() }, port: port.to_string(), b: vec![] }
}

impl HEv {
    pub fn from_json(v: &Value) -> HEv {
        let op = v["op"].as_str().unwrap_or("").to_string();
        let p = v["p"].as_array().map(|a| a.iter().map(|x| x.as_i64().unwrap_or(-1)).collect()).unwrap_or_default();
        let s = v["s"].as_array().map(|a| a.iter().map(|x| x.as_u64().unwrap_or(0) as u32).collect()).unwrap_or_default();
        let b = v["b"].as_array().map(|a| a.iter().map(|x| x.as_u64().unwrap_or(0) as u8).collect()).unwrap_or_default();
        let pr = v["pr"].as_bool().unwrap_or(false);
        let port = v["port"].as_str().unwrap_or("api").to_string();
        HEv { ev: Ev { op, p, s, pr, wm: String::new() }, port, b }
    }
    pub fn json(&self) -> String {
        let mut e = self.ev.json();
        e.pop();
        let _ = write!(e, ",\"port\":\"{}\",\"b\":[", self.port);
        for (i, x) in self.b.iter().enumerate() {
            if i > 0 {
                e.push(',');
            }
            let _ = write!(e, "{}", x);
        }
        e.push_str("]}");
        e
    }
}

#[derive(Clone, Debug)]
pub struct History {
    pub id: String,
    pub sid: String,
    pub cmp: String,
    pub c: u32,
    pub l: u32,
    pub scr: bool,
    pub utf8: bool,
    pub evs: Vec<HEv>,
    pub setup: Vec<HEv>,
    pub dispsetup: bool,
}

impl History {
    pub fn from_json(v: &Value) -> History {
        History {
            id: v["id"].as_str().unwrap_or("").to_string(),
            sid: v["sid"].as_str().unwrap_or("").to_string(),
            cmp: v["cmp"].as_str().unwrap_or("").to_string(),
            c: v["C"].as_u64().unwrap_or(4) as u32,
            l: v["L"].as_u64().unwrap_or(3) as u32,
            scr: v["scr"].as_bool().unwrap_or(true),
            utf8: v["utf8"].as_bool().unwrap_or(true),
            evs: v["evs"].as_array().map(|a| a.iter().map(HEv::from_json).collect()).unwrap_or_default(),
            setup: v["setup"].as_array().map(|a| a.iter().map(HEv::from_json).collect()).unwrap_or_default(),
            dispsetup: v["dispsetup"].as_bool().unwrap_or(false),
        }
    }
    pub fn json(&self) -> String {
        let evs: Vec<String> = self.evs.iter().map(|e| e.json()).collect();
        let setup: Vec<String> = self.setup.iter().map(|e| e.json()).collect();
        format!(
            "{{\"id\":{},\"sid\":{},\"cmp\":{},\"C\":{},\"L\":{},\"scr\":{},\"utf8\":{},\"dispsetup\":{},\"setup\":[{}],\"evs\":[{}]}}",
            serde_json::to_string(&self.id).unwrap(),
            serde_json::to_string(&self.sid).unwrap(),
            serde_json::to_string(&self.cmp).unwrap(),
            self.c,
            self.l,
            self.scr,
            self.utf8,
            self.dispsetup,
            setup.join(","),
            evs.join(",")
        )
    }
}

fn opt(v: i64) -> Option<u32> {
    if v < 0 { None } else { Some(v as u32) }
}

fn cps_string(s: &[u32]) -> String {
    s.iter().map(|c| char::from_u32(*c).unwrap_or('\u{fffd}')).collect()
}

fn csi_params(p: &[i64]) -> String {
    // trailing absent parameters are dropped; inner absent ones are empty
    let mut q: Vec<i64> = p.to_vec();
    while let Some(&last) = q.last() {
        if last < 0 { q.pop(); } else { break; }
    }
    q.iter().map(|x| if *x < 0 { String::new() } else { x.to_string() }).collect::<Vec<_>>().join(";")
}

/// Escape-sequence encoding of an abstract operation (generator convenience only:
/// what the implementation makes of the bytes is judged by the specification's
/// own recogniser, never by this table).
pub fn encode(ev: &Ev) -> Option<String> {
    let csi = |fin: &str| Some(format!("\x1b[{}{}", csi_params(&ev.p), fin));
    match ev.op.as_str() {
        "draw" => Some(cps_string(&ev.s)),
        "bel" => Some("\x07".into()),
        "bs" => Some("\x08".into()),
        "ht" => Some("\x09".into()),
        "lf" => Some("\x0a".into()),
        "vt" => Some("\x0b".into()),
        "ff" => Some("\x0c".into()),
        "cr" => Some("\x0d".into()),
        "so" => Some("\x0e".into()),
        "si" => Some("\x0f".into()),
        "ind" => Some("\x1bD".into()),
        "nel" => Some("\x1bE".into()),
        "ri" => Some("\x1bM".into()),
        "hts" => Some("\x1bH".into()),
        "decsc" => Some("\x1b7".into()),
        "decrc" => Some("\x1b8".into()),
        "ris" => Some("\x1bc".into()),
        "decaln" => Some("\x1b#8".into()),
        "charset" => Some(format!(
            "\x1b{}{}",
            char::from_u32(*ev.p.first().unwrap_or(&40) as u32).unwrap_or('('),
            cps_string(&ev.s)
        )),
        "ich" => csi("@"),
        "cuu" => csi("A"),
        "cud" => csi("B"),
        "cuf" => csi("C"),
        "cub" => csi("D"),
        "cnl" => csi("E"),
        "cpl" => csi("F"),
        "cha" => csi("G"),
        "cup" => csi("H"),
        "ed" => csi("J"),
        "el" => csi("K"),
        "il" => csi("L"),
        "dl" => csi("M"),
        "dch" => csi("P"),
        "ech" => csi("X"),
        "hpr" => csi("a"),
        "da" => csi("c"),
        "vpa" => csi("d"),
        "vpr" => csi("e"),
        "hvp" => csi("f"),
        "tbc" => csi("g"),
        "sm" => Some(format!("\x1b[{}{}h", if ev.pr { "?" } else { "" }, csi_params(&ev.p))),
        "rm" => Some(format!("\x1b[{}{}l", if ev.pr { "?" } else { "" }, csi_params(&ev.p))),
        "sgr" => csi("m"),
        "decstbm" => csi("r"),
        "title" => Some(format!("\x1b]2;{}\x07", cps_string(&ev.s))),
        "icon" => Some(format!("\x1b]1;{}\x07", cps_string(&ev.s))),
        _ => None,
    }
}

/// Alternative spellings of the same control sequence, chosen round-robin (generator convenience only - the bytes
/// actually fed are logged and parsed by the specification's own recogniser): the C1 introducer, parameters padded
/// with zeros to five digits, and an aborted CSI / a `$`-skipped CSI in front (neither delivers anything, but
/// both leave collector state behind if the parser forgets to clear it).
fn respell(enc: String, n: u64) -> String {
    if enc.starts_with('\x1b') && !enc.starts_with("\x1b[") {
        // other escape sequences and OSC strings: only the prefixes
        return match n % 8 {
            5 => format!("\x1b[47\x18{}", enc),
            6 => format!("\x1b[?2$p{}", enc),
            _ => enc,
        };
    }
    if !enc.starts_with("\x1b[") {
        return enc;
    }
    let body = &enc[2..];
    match n % 8 {
        2 => format!("\u{9b}{}", body),
        3 => {
            let mut out = String::from("\x1b[");
            let mut digits = String::new();
            for c in body.chars() {
                if c.is_ascii_digit() {
                    digits.push(c);
                } else {
                    if !digits.is_empty() {
                        out.push_str(&format!("{:0>5}", digits));
                        digits.clear();
                    }
                    out.push(c);
                }
            }
            out
        }
        5 => format!("\x1b[47\x18{}", enc),
        6 => format!("\x1b[?2$p{}", enc),
        _ => enc,
    }
}

pub struct Machine {
    pub tap: Arc<Mutex<Tap>>,
    parser: Option<Parser<'static, Tap>>,
    bparser: Option<ByteParser<'static, Tap>>,
    utf8: bool,
    pub dead: bool,
    pub out: Vec<String>,
    collect: bool,
    collected: Vec<Ev>,
    wire_n: u64,
}

fn lock(t: &Arc<Mutex<Tap>>) -> std::sync::MutexGuard<'_, Tap> {
    t.lock().unwrap_or_else(|e| e.into_inner())
}

impl Machine {
    pub fn new(h: &History) -> Machine {
        let scr = if h.scr {
            // Screen::new can itself panic only on absurd sizes; treat like any other step
            Some(Screen::new(h.c, h.l))
        } else {
            None
        };
        let mut tap = Tap::new(scr);
        let post = tap.project();
        let mut m = Machine {
            tap: Arc::new(Mutex::new(tap)),
            parser: None,
            bparser: None,
            utf8: h.utf8,
            dead: false,
            out: Vec::new(),
            collect: false,
            collected: Vec::new(),
            wire_n: h.id.bytes().map(|b| b as u64).sum(),
        };
        m.out.push(format!(
            "{{\"k\":\"new\",\"id\":{},\"sid\":{},\"C\":{},\"L\":{},\"scr\":{},\"utf8\":{},\"post\":{}}}",
            serde_json::to_string(&h.id).unwrap(),
            serde_json::to_string(&h.sid).unwrap(),
            h.c, h.l, h.scr, h.utf8, post
        ));
        m
    }

    fn drain(&mut self) -> Vec<Ev> {
        let mut t = lock(&self.tap);
        let lines = std::mem::take(&mut t.lines);
        self.out.extend(lines);
        let evs = std::mem::take(&mut t.events);
        if self.collect {
            self.collected.extend(evs.iter().cloned());
        }
        evs
    }

    fn ensure_parser(&mut self) {
        if self.parser.is_none() {
            let mut p = Parser::new(self.tap.clone());
            if !self.utf8 { p.set_use_utf8(false); }
            self.parser = Some(p);
        }
    }
    fn ensure_bparser(&mut self) {
        if self.bparser.is_none() {
            let mut p = ByteParser::new(self.tap.clone());
            if !self.utf8 { p.select_other_charset("@"); }
            self.bparser = Some(p);
        }
    }

    fn feed_line(&mut self, e: &HEv, wire_s: &[u32], wire_b: &[u8], panic: Option<String>) {
        let evs = self.drain();
        let mut l = String::new();
        let mut src = e.json();
        src.pop();
        // wire = what was actually fed in this call
        let _ = write!(src, ",\"ws\":{:?},\"wb\":{:?}}}", wire_s, wire_b);
        let _ = write!(l, "{{\"k\":\"feed\",\"ev\":{},\"panic\":{}", src, panic.is_some());
        if let Some(m) = panic {
            let _ = write!(l, ",\"msg\":{}", serde_json::to_string(&m).unwrap());
        }
        l.push_str(",\"out\":[");
        for (i, x) in evs.iter().enumerate() {
            if i > 0 { l.push(','); }
            l.push_str(&x.json());
        }
        l.push_str("]}");
        self.out.push(l);
    }

    pub fn step(&mut self, e: &HEv) {
        if self.dead { return; }
        let op = e.ev.op.as_str();
        match op {
            "resize" => {
                let mut t = lock(&self.tap);
                t.src = "api";
                let (l, c) = (opt(*e.ev.p.first().unwrap_or(&-1)), opt(*e.ev.p.get(1).unwrap_or(&-1)));
                let mut panic = None;
                if let Some(scr) = t.scr.as_mut() {
                    if catch_unwind(AssertUnwindSafe(|| scr.resize(l, c))).is_err() {
                        panic = Some(take_panic());
                        t.panics += 1;
                    }
                }
                t.log_action(&e.ev, panic, "");
                drop(t);
                self.drain();
            }
            "cleardirty" => {
                let mut t = lock(&self.tap);
                t.src = "api";
                if let Some(scr) = t.scr.as_mut() { scr.dirty.clear(); }
                t.log_action(&e.ev, None, "");
                drop(t);
                self.drain();
            }
            "utf8" => {
                // p[0] = 1: UTF-8 mode, 0: 8-bit mode; s = the select_other_charset code if given
                let on = *e.ev.p.first().unwrap_or(&1) != 0;
                self.utf8 = on;
                if let Some(p) = self.parser.as_mut() { p.set_use_utf8(on); }
                if let Some(p) = self.bparser.as_mut() {
                    let code = if e.ev.s.is_empty() { if on { "G".to_string() } else { "@".to_string() } } else { cps_string(&e.ev.s) };
                    p.select_other_charset(&code);
                }
                self.out.push(format!("{{\"k\":\"utf8\",\"ev\":{}}}", e.json()));
            }
            "feed" => {
                self.ensure_parser();
                lock(&self.tap).src = "chars";
                let s = cps_string(&e.ev.s);
                let p = self.parser.as_mut().unwrap();
                let r = catch_unwind(AssertUnwindSafe(|| p.feed(s)));
                let panic = if r.is_err() { self.dead = true; Some(take_panic()) } else { None };
                self.feed_line(e, &e.ev.s, &[], panic);
            }
            "feedb" => {
                self.ensure_bparser();
                lock(&self.tap).src = "bytes";
                let p = self.bparser.as_mut().unwrap();
                let r = catch_unwind(AssertUnwindSafe(|| p.feed(&e.b)));
                let panic = if r.is_err() { self.dead = true; Some(take_panic()) } else { None };
                self.feed_line(e, &[], &e.b, panic);
            }
            _ => match e.port.as_str() {
                "chars" | "bytes" => {
                    let enc = match encode(&e.ev) { Some(x) => respell(x, self.wire_n), None => return };
                    self.wire_n += 1;
                    if e.port == "chars" {
                        self.ensure_parser();
                        lock(&self.tap).src = "chars";
                        let ws: Vec<u32> = enc.chars().map(|c| c as u32).collect();
                        let p = self.parser.as_mut().unwrap();
                        let r = catch_unwind(AssertUnwindSafe(|| p.feed(enc)));
                        let panic = if r.is_err() { self.dead = true; Some(take_panic()) } else { None };
                        self.feed_line(e, &ws, &[], panic);
                    } else {
                        self.ensure_bparser();
                        lock(&self.tap).src = "bytes";
                        let wb: Vec<u8> = if self.utf8 {
                            enc.as_bytes().to_vec()
                        } else {
                            enc.chars().filter(|c| (*c as u32) < 256).map(|c| c as u32 as u8).collect()
                        };
                        let p = self.bparser.as_mut().unwrap();
                        let r = catch_unwind(AssertUnwindSafe(|| p.feed(&wb)));
                        let panic = if r.is_err() { self.dead = true; Some(take_panic()) } else { None };
                        self.feed_line(e, &[], &wb, panic);
                    }
                }
                _ => {
                    self.api(&e.ev);
                    self.drain();
                }
            },
        }
    }

    fn api(&mut self, ev: &Ev) {
        let mut t = lock(&self.tap);
        t.src = "api";
        let p = |i: usize| opt(*ev.p.get(i).unwrap_or(&-1));
        let s = cps_string(&ev.s);
        let list: Vec<u32> = ev.p.iter().filter(|x| **x >= 0).map(|x| *x as u32).collect();
        match ev.op.as_str() {
            "decaln" => t.alignment_display(),
            "charset" => {
                let mode = cps_string(&ev.p.iter().map(|x| *x as u32).collect::<Vec<u32>>());
                t.define_charset(&s, &mode)
            }
            "ris" => t.reset(),
            "ind" => t.index(),
            "lf" | "nel" | "vt" | "ff" => t.linefeed(),
            "ri" => t.reverse_index(),
            "hts" => t.set_tab_stop(),
            "decsc" => t.save_cursor(),
            "decrc" => t.restore_cursor(),
            "so" => t.shift_out(),
            "si" => t.shift_in(),
            "bel" => t.bell(),
            "bs" => t.backspace(),
            "ht" => t.tab(),
            "cr" => t.cariage_return(),
            "draw" => t.draw(&s),
            "ich" => t.insert_characters(p(0)),
            "cuu" => t.cursor_up(p(0)),
            "cud" | "vpr" => t.cursor_down(p(0)),
            "cuf" | "hpr" => t.cursor_forward(p(0)),
            "cub" => t.cursor_back(p(0)),
            "cnl" => t.cursor_down1(p(0)),
            "cpl" => t.cursor_up1(p(0)),
            "cha" => t.cursor_to_column(p(0)),
            "cup" | "hvp" => t.cursor_position(p(0), p(1)),
            "ed" => t.erase_in_display(p(0), None),
            "el" => t.erase_in_line(p(0), None),
            "il" => t.insert_lines(p(0)),
            "dl" => t.delete_lines(p(0)),
            "dch" => t.delete_characters(p(0)),
            "ech" => t.erase_characters(p(0)),
            "da" => t.report_device_attributes(p(0), None),
            "vpa" => t.cursor_to_line(p(0)),
            "tbc" => t.clear_tab_stop(p(0)),
            "sm" => t.set_mode(&list, ev.pr),
            "rm" => t.reset_mode(&list, ev.pr),
            "sgr" => t.select_graphic_rendition(&list),
            "title" => t.set_title(&s),
            "icon" => t.set_icon_name(&s),
            "decstbm" => t.set_margins(p(0), p(1)),
            "display" => { t.display(); }
            _ => {}
        }
    }

    /// end-of-history line with a full (non-delta) projection
    pub fn finish(&mut self, h: &History) {
        let mut t = lock(&self.tap);
        t.proj.reset();
        let post = t.project();
        let panics = t.panics;
        drop(t);
        self.out.push(format!(
            "{{\"k\":\"end\",\"id\":{},\"sid\":{},\"cmp\":{},\"scr\":{},\"dead\":{},\"panics\":{},\"post\":{}}}",
            serde_json::to_string(&h.id).unwrap(),
            serde_json::to_string(&h.sid).unwrap(),
            serde_json::to_string(&h.cmp).unwrap(),
            h.scr,
            self.dead, panics, post
        ));
    }
}

pub fn run_history(h: &History) -> Vec<String> {
    let mut m = Machine::new(h);
    if !h.setup.is_empty() {
        // setup history: executed through the API without per-step logging, then one
        // `sync` line with the events (and their width facts) and the full state reached
        lock(&m.tap).log_ops = false;
        m.collect = true;
        for e in &h.setup {
            m.step(e);
            if h.dispsetup {
                lock(&m.tap).display();
            }
        }
        let mut t = lock(&m.tap);
        t.log_ops = true;
        // (display() leaves the state alone and is not part of the specification's fold; embedder actions
        // such as resize are not listener calls and are taken from the history itself)
        m.collected.extend(std::mem::take(&mut t.events));
        m.collect = false;
        let mut recorded = std::mem::take(&mut m.collected).into_iter().filter(|e| e.op != "display");
        let mut evs: Vec<String> = Vec::new();
        for e in &h.setup {
            match e.ev.op.as_str() {
                "display" => {}
                "resize" | "cleardirty" => evs.push(e.ev.json()),
                _ => { if let Some(r) = recorded.next() { evs.push(r.json()); } }
            }
        }
        t.proj.reset();
        let post = t.project();
        let panics = t.panics;
        drop(t);
        m.out.push(format!("{{\"k\":\"sync\",\"C\":{},\"L\":{},\"panics\":{},\"setup\":[{}],\"post\":{}}}", h.c, h.l, panics, evs.join(","), post));
    }
    for e in &h.evs {
        m.step(e);
    }
    // vectors (a setup history and no comparison group) need no end-of-history state
    if h.setup.is_empty() || !h.sid.is_empty() {
        m.finish(h);
    }
    // A parser whose coroutine died is leaked rather than dropped (dropping a
    // poisoned generator aborts the process in some generator-rs versions).
    if m.dead {
        let out = std::mem::take(&mut m.out);
        std::mem::forget(m);
        return out;
    }
    std::mem::take(&mut m.out)
}
