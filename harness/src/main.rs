mod gen;
mod machine;
mod project;
mod rng;
mod tap;

use std::fs::File;
use std::io::{BufRead, BufReader, BufWriter, Write};

use machine::{run_history, History};

fn usage() -> ! {
    eprintln!("usage: mtharness replay <histories.ndjson> <trace.ndjson>\n       mtharness gen <driver> <seed> <count> <histories.ndjson> [k=v ...]");
    std::process::exit(2)
}

fn main() {
    let args: Vec<String> = std::env::args().collect();
    if args.len() < 2 {
        usage();
    }
    tap::install_panic_hook();
    match args[1].as_str() {
        "replay" => {
            if args.len() < 4 {
                usage();
            }
            let inp = BufReader::new(File::open(&args[2]).expect("open histories"));
            let mut out = BufWriter::new(File::create(&args[3]).expect("create trace"));
            let mut n = 0u64;
            for line in inp.lines() {
                let line = line.expect("read");
                if line.trim().is_empty() {
                    continue;
                }
                let v: serde_json::Value = serde_json::from_str(&line).expect("history json");
                let h = History::from_json(&v);
                // progress marker first, so that an abort/hang can be attributed to this history
                writeln!(out, "{{\"k\":\"begin\",\"id\":{},\"sid\":{}}}", serde_json::to_string(&h.id).unwrap(), serde_json::to_string(&h.sid).unwrap()).unwrap();
                out.flush().unwrap();
                for l in run_history(&h) {
                    writeln!(out, "{}", l).unwrap();
                }
                n += 1;
            }
            out.flush().unwrap();
            eprintln!("replayed {} histories", n);
        }
        "classes" => {
            // every (display width | none, combining?) class the two crates define, with its size and first members
            use unicode_normalization::char::is_combining_mark;
            use unicode_width::UnicodeWidthChar;
            let mut m: std::collections::BTreeMap<(i32, bool), (u32, Vec<u32>)> = Default::default();
            for cp in 0u32..0x110000 {
                if let Some(c) = char::from_u32(cp) {
                    let k = (c.width().map(|w| w as i32).unwrap_or(-1), is_combining_mark(c));
                    let e = m.entry(k).or_insert((0, vec![]));
                    e.0 += 1;
                    if e.1.len() < 8 {
                        e.1.push(cp);
                    }
                }
            }
            for ((w, cm), (n, first)) in m {
                println!("width={} comb={} count={} first={:x?}", w, cm, n, first);
            }
        }
        "gen" => {
            if args.len() < 6 {
                usage();
            }
            let seed: u64 = args[3].parse().expect("seed");
            let count: u64 = args[4].parse().expect("count");
            let mut out = BufWriter::new(File::create(&args[5]).expect("create histories"));
            let opts: Vec<(String, String)> = args[6..]
                .iter()
                .filter_map(|a| a.split_once('=').map(|(k, v)| (k.to_string(), v.to_string())))
                .collect();
            let hs = gen::generate(&args[2], seed, count, &opts);
            for h in hs {
                writeln!(out, "{}", h.json()).unwrap();
            }
            out.flush().unwrap();
        }
        _ => usage(),
    }
}
