"""Per-property check plans: which bounded models TLC explores (MC + vector generation), which
seeded drivers record implementation traces, and which step predicates TLC asserts on them."""

def ports(q, t):
    return {"quick": q, "thorough": t}

ALLP = {"api": 1, "chars": 1, "bytes": 1}
API = {"api": 1}

def geoms(q, t):
    return {"quick": q, "thorough": t}

def mc(model, g, p, **kw):
    d = {"model": model, "geoms": g, "ports": p}
    d.update(kw)
    return d

def gen(driver, q, t, **opts):
    return {"driver": driver, "opts": {k: str(v) for k, v in opts.items()}, "count": {"quick": q, "thorough": t},
            "salt": sum(ord(c) for c in driver + str(sorted(opts.items()))) % 1000}

def walk(focus, q, t, steps=80, **kw):
    return gen("walk", q, t, focus=focus, steps=steps, **kw)

PLANS = {}

def terminal_sim(q, t):
    """random behaviours of the whole system specification (spec/Terminal.tla), system-level invariants in every state"""
    return {"module": "MCTerminal", "model": "terminal", "kind": "screen", "emit": False, "workers": 4,
            "constants": {"Cols": 3, "Lines": 2, "MaxCols": 4, "MaxLines": 3, "ByteAlphabet": "<- MCBytes", "CharAlphabet": "<- MCChars",
                          "ApiEvents": "<- MCApi", "Wm": "<- MCWm"},
            "invariants": ["ScreenOK", "OriginConfined", "RecOK", "PendOK", "ResetWordOK", "TypeOK"],
            "simulate": {"num": {"quick": q, "thorough": t}, "depth": 80}, "ports": ports({}, {})}

def mcrec(family, maxlen, utf8, p, **kw):
    d = {"module": "MCRec", "model": "rec-%s-%s" % (family, "u" if utf8 else "e"), "kind": "rec", "view": "View",
         "constants": {"MaxLen": maxlen, "Utf8Mode": "TRUE" if utf8 else "FALSE", "Family": '"%s"' % family},
         "invariants": ["Agrees", "GroundClean", "ResetWord", "Complete", "Emit"], "ports": p}
    if family == "graph":
        d["workers"] = 1      # strict breadth-first order: with the VIEW the shortest string per edge is kept, deterministically
    d.update(kw)
    return d

def mcseq(model, maxseq, p, **kw):
    d = {"module": "MCSeq", "model": model, "kind": "seq", "constants": {"Model": '"%s"' % model, "MaxSeq": maxseq},
         "invariants": ["StepsHold", "NoReappear", "RisForgets", "Emit"], "ports": p, "workers": 6}
    d.update(kw)
    return d

PLANS["C04"] = {
    "props": ["C04"], "ops": ["draw"],
    "mc": [mc("C04", geoms("GQuick", "GThorough"), ports({"api": 1, "chars": 6}, {"api": 1, "chars": 2, "bytes": 3}),
              textlen={"quick": 2, "thorough": 3}, disp=True),
           mc("C04sweep", geoms("GOne", "GSmall"), ports({"api": 1, "chars": 5}, {"api": 1, "chars": 3}), invariants=["WellFormedInv", "Emit"])],
    "gen": [gen("star", 12, 300, focus="C04", steps=40, every=6, per=24), walk("C04", 160, 4000), walk("C04", 80, 2000, port="chars"), walk("C04", 8, 200, geom="large", steps=60)],
    "rule": "MC: every text of length <= 2 (thorough: 3) over {narrow, wide, combining, ZWSP, NUL, DEL, >U+00FF} from filled / sparse / "
            "wide-pair grids x cursor everywhere incl. pending wrap x regions x DECAWM/IRM/LNM; each vector also with display() "
            "interposed in the setup (materialised vs never-written cells); TV: seeded text-heavy random walks",
}
PLANS["C05"] = {
    "apalache": True,
    "props": ["C05"], "ops": ["cuu", "cud", "cuf", "cub", "cnl", "cpl", "cha", "vpa", "cup", "bs", "cr"],
    "mc": [mc("Phuge", geoms("GHuge", "GHuge"), ports({"api": 1}, {"api": 1}), invariants=["WellFormedInv", "Emit"], workers=4),
           mc("Psweep", geoms("GLong", "GLong"), ports({"api": 1, "chars": 3}, {"api": 1, "chars": 1}), invariants=["WellFormedInv", "Emit"]),
           mc("C05", geoms("GQuick", "GThorough"), ports({"api": 1, "chars": 2, "bytes": 5}, ALLP))],
    "gen": [gen("star", 12, 300, focus="C05", steps=40, every=6, per=24), walk("C05", 160, 4000), walk("C05", 80, 2000, port="chars"), walk("C05", 16, 400, geom="large", steps=60)],
    "rule": "MC: every movement operation x every parameter in {absent,0,1,..,size+2,9999} (both independently for CUP) from "
            "every cursor position incl. pending wrap x every region x DECOM on/off, on each geometry; TV: seeded random walks",
}
PLANS["C06"] = {
    "props": ["C06"], "ops": ["ind", "lf", "ri", "il", "dl", "decstbm"],
    "mc": [mc("Phuge", geoms("GHuge", "GHuge"), ports({"api": 1}, {"api": 1}), invariants=["WellFormedInv", "Emit"], workers=4),
           mc("Psweep", geoms("GLong", "GLong"), ports({"api": 1, "chars": 3}, {"api": 1, "chars": 1}), invariants=["WellFormedInv", "Emit"]),
           mcseq("C06seq", {"quick": 3, "thorough": 4}, ports({"api": 1, "chars": 3}, {"api": 1, "chars": 3}), disp=True),
           mc("C06", geoms("GRowsQuick", "GRows"), ports({"api": 1, "chars": 3}, ALLP), disp=True)],
    "gen": [gen("star", 12, 300, focus="C06", steps=40, every=6, per=24), walk("C06", 160, 4000), walk("C06", 80, 2000, port="chars"), walk("C06", 8, 200, geom="large", steps=60)],
    "rule": "MC: IND/LF/RI, IL/DL with counts {absent,0,..,L+2,9999}, DECSTBM with every (top,bottom) pair, from grids whose every "
            "cell holds a distinct coloured marker (filled and sparse), every region, every cursor row; vectors also replayed with "
            "display() interposed in the setup",
}
PLANS["C07"] = {
    "props": ["C07"], "ops": ["ed", "el", "ech"],
    "mc": [mc("Phuge", geoms("GHuge", "GHuge"), ports({"api": 1}, {"api": 1}), invariants=["WellFormedInv", "Emit"], workers=4),
           mc("Psweep", geoms("GLong", "GLong"), ports({"api": 1, "chars": 3}, {"api": 1, "chars": 1}), invariants=["WellFormedInv", "Emit"]),
           mc("C07", geoms("GRowsQuick", "GRows"), ports({"api": 1, "chars": 3}, ALLP), disp=True)],
    "gen": [gen("star", 12, 300, focus="C07", steps=40, every=6, per=24), walk("C07", 160, 4000), walk("C07", 80, 2000, port="chars")],
    "rule": "MC: ED/EL selectors {absent,0..5,9999}, ECH counts {absent,0,..,C+2,9999} from marker-filled coloured grids, cursor at "
            "representative columns incl. pending wrap, with/without region and DECOM, coloured current rendition",
}
PLANS["C08"] = {
    "props": ["C08"], "ops": ["sgr"],
    "mc": [mc("C08", geoms("GTiny", "GTiny"), ports({"api": 1, "chars": 1}, {"api": 1, "chars": 2, "bytes": 5}), sgrmax={"quick": 300, "thorough": 9999})],
    "gen": [gen("star", 12, 300, focus="C08", steps=40, every=6, per=24), walk("C08", 200, 5000), walk("C08", 100, 2500, port="chars")],
    "rule": "MC: every single code 0..110 and {255,256,1000,9999}, all 38/48;5;n and ;2;r;g;b forms incl. out-of-range and truncated "
            "tails, documented pairs, from six rendition states (incl. DECSCNM); Decl_C08 is an independent per-attribute reading",
}
PLANS["C10"] = {
    "props": ["C10"], "ops": ["display"],
    "mc": [mcseq("C13seq", {"quick": 3, "thorough": 4}, ports({"api": 1}, {"api": 1})), mcseq("C16seq", {"quick": 3, "thorough": 3}, ports({"api": 3}, {"api": 1})), mcseq("C06seq", {"quick": 3, "thorough": 3}, ports({"api": 2}, {"api": 1})),
           mc("C10", geoms("GQuick", "GThorough"), ports(API, API), disp=True)],
    "gen": [gen("star", 12, 300, focus="C10", steps=40, every=6, per=24), gen("paired", 120, 3000, steps=60), gen("paired", 60, 1500, steps=60, focus="C10"), walk("C10", 80, 2000)],
    "rule": "MC: Render against a second, column-indexed definition on grids with wide pairs, orphaned placeholders, combining "
            "sequences, wide characters in the last column; TV: paired runs of the same history with display() at no position and "
            "at a random subset of positions must end in the same state; display output = Render(pre); state unchanged",
}
PLANS["C12"] = {
    "props": ["C12"], "ops": ["sm", "rm"],
    "mc": [mc("C12", geoms("GSmall", "GSmall"), ports({"api": 1, "chars": 1}, {"api": 1, "chars": 2, "bytes": 5}), modemax={"quick": 40, "thorough": 9999}),
           mc("C12", geoms("GColm", "GColm"), ports({"api": 1, "chars": 2}, {"api": 1, "chars": 1}), modemax={"quick": 8, "thorough": 8})],
    "gen": [gen("star", 12, 300, focus="C12", steps=40, every=6, per=24), walk("C12", 160, 4000), walk("C12", 80, 2000, port="chars")],
    "rule": "MC: SM/RM of every mode number 0..40 and {96,160,192,224,800,1049,2004,9999} x {private, ANSI}, and mode lists, from "
            "seven representative states (region, DECOM, DECSCNM, DECCOLM, coloured rendition); the same with modes 0..8 on screens of "
            "132, 133 and 200 columns (DECCOLM from a screen that is already as wide or wider)",
}
PLANS["C13"] = {
    "props": ["C13"], "ops": ["ich", "dch"],
    "mc": [mc("Phuge", geoms("GHuge", "GHuge"), ports({"api": 1}, {"api": 1}), invariants=["WellFormedInv", "Emit"], workers=4),
           mc("Psweep", geoms("GLong", "GLong"), ports({"api": 1, "chars": 3}, {"api": 1, "chars": 1}), invariants=["WellFormedInv", "Emit"]),
           mcseq("C13seq", {"quick": 3, "thorough": 4}, ports({"api": 1, "chars": 3}, {"api": 1, "chars": 3}), disp=True),
           mc("C13", geoms("GCols", "GCols"), ports({"api": 1, "chars": 2}, ALLP), disp=True)],
    "gen": [gen("star", 12, 300, focus="C13", steps=40, every=6, per=24), walk("C13", 160, 4000), walk("C13", 80, 2000, port="chars"), walk("C16", 80, 2000)],
    "rule": "MC: ICH/DCH counts {absent,0,..,C+2,9999} on rows of width 1..6 with distinct coloured markers (filled and sparse), cursor "
            "incl. pending wrap; TV: random walks mixing ICH/DCH/IRM-draw/EL and grow-resizes (a discarded cell that reappears is a "
            "step the dense-grid specification cannot explain)",
}
PLANS["C14"] = {
    "props": ["C14"], "ops": ["decsc", "decrc"],
    "mc": [mcseq("C14seq", {"quick": 3, "thorough": 4}, ports({"api": 1, "chars": 3}, {"api": 1, "chars": 3})),
           mcseq("C14colm", {"quick": 3, "thorough": 3}, ports({"api": 1}, {"api": 1, "chars": 2})),
           mc("C14", geoms("GSmall", "GSmall"), ports({"api": 1, "chars": 2}, ALLP))],
    "gen": [gen("star", 12, 300, focus="C14", steps=40, every=6, per=24), walk("C14", 160, 4000), walk("C14", 80, 2000, port="chars")],
    "rule": "MC: DECSC/DECRC after every history a;b;c with a,b,c from {save, restore, move+SGR, draw at the edge, SO+designate, "
            "DECOM/DECAWM/DECTCEM changes, region, shrink}; stack LIFO, clamping, mode re-enabling",
}
PLANS["C15"] = {
    "props": ["C15"], "ops": ["ris"],
    "mc": [mcseq("C15seq", {"quick": 3, "thorough": 4}, ports({"api": 1, "chars": 2}, {"api": 1, "chars": 2}), disp=True),
           mc("C15", geoms("GSmall", "GSmall"), ports(ALLP, ALLP), disp=True)],
    "gen": [walk("C15", 200, 5000, steps=60), walk("C15", 100, 2500, port="chars", steps=60)],
    "rule": "MC: RIS from states carrying rendition, region, modes, titles, charsets, tab edits, hidden-state-leaving edits, DECCOLM; "
            "TV: random histories h.RIS.t validated stepwise",
}
PLANS["C16"] = {
    "props": ["C16"], "ops": ["resize"],
    "mc": [mcseq("C16seq", {"quick": 3, "thorough": 3}, ports({"api": 2}, {"api": 1}), disp=True), mcseq("C13seq", {"quick": 3, "thorough": 4}, ports({"api": 2}, {"api": 1})),
           mc("C16", geoms("GRowsQuick", "GRows"), ports(API, API), disp=True)],
    "gen": [gen("star", 12, 300, focus="C16", steps=40, every=6, per=24), walk("C16", 200, 5000), walk("C13", 60, 1500)],
    "rule": "MC: resize to every target 1..L+2 x 1..C+2 (and absent) from filled/sparse marker grids with region, DECOM, pending-wrap "
            "cursor; TV: random walks with resize sequences (shrink-then-grow), DECCOLM round trips",
}
PLANS["C18"] = {
    "props": ["C18"], "ops": ["ht", "hts", "tbc"],
    "mc": [mc("C18", geoms("GCols", "GCols"), ports({"api": 1, "chars": 1}, ALLP)),
           mc("C18w", geoms("GWideQuick", "GWide"), ports({"api": 1, "chars": 3}, {"api": 1, "chars": 2})),
           mc("C18all", geoms("GAllWQuick", "GAllW"), ports({"api": 1}, {"api": 1, "chars": 4}))],
    "gen": [gen("star", 12, 300, focus="C18", steps=40, every=6, per=24), walk("C18", 160, 4000), walk("C18", 80, 2000, port="chars"), walk("C18", 40, 1000, geom="large", steps=60)],
    "rule": "MC: HT/HTS/TBC{absent,0..4,9999} from every cursor column incl. pending wrap; TV: random walks with HTS/TBC edits and "
            "width changes (resize, DECCOLM) between setting a stop and using it, widths up to 140",
}
PLANS["C20"] = {
    "props": ["C20"], "ops": ["so", "si", "charset", "draw"],
    "mc": [mc("C20", geoms("GTiny", "GTiny"), ports(API, {"api": 1})),
           mcrec("graph", {"quick": 4, "thorough": 5}, True, ports({"chars": 1, "bytes": 3}, {"chars": 1, "chars1": 2, "bytes": 2})),
           mcrec("graph", {"quick": 4, "thorough": 5}, False, ports({"chars": 1, "bytes": 3}, {"chars": 1, "chars1": 2, "bytes": 2})),
           mcrec("pairs", 1, False, ports({"chars": 1}, {"chars": 1, "bytes": 1}))],
    "gen": [gen("star", 12, 300, focus="C20", steps=40, every=6, per=24), walk("C20", 120, 3000), walk("C20", 120, 3000, port="chars", utf8=0), walk("C20", 60, 1500, port="chars"),
            walk("C20", 60, 1500, port="bytes", utf8=0)],
    "rule": "MC: all 256 code points (+ three above 255) x 4 tables x {G0,G1} x {SI, SO, SO;SI} drawn one at a time, every designator "
            "final incl. unsupported ones; TV: 8-bit and UTF-8 parser walks (shifts/designators delivered in 8-bit mode only)",
}

LIGHT = {"api": 3}
PLANS["C17"] = {
    "props": ["C17"], "ops": [],
    "mc": [mcseq("C13seq", {"quick": 3, "thorough": 3}, ports({"api": 2}, {"api": 1})), mcseq("C15seq", {"quick": 3, "thorough": 3}, ports({"api": 1}, {"api": 1})),
           mc("C04", geoms("GTiny", "GQuick"), ports({"api": 1}, {"api": 1, "chars": 3})),
           mc("C06", geoms("GRowsQuick", "GRows"), ports({"api": 2}, {"api": 1})),
           mc("C07", geoms("GRowsQuick", "GRows"), ports({"api": 2}, {"api": 1})),
           mc("C13", geoms("GCols", "GCols"), ports({"api": 1}, {"api": 1})),
           mc("C12", geoms("GSmall", "GSmall"), ports({"api": 1, "chars": 1}, ALLP)),
           mc("C16", geoms("GRowsQuick", "GRows"), ports({"api": 2}, {"api": 1}))],
    "gen": [gen("star", 12, 300, focus="C17", steps=40, every=6, per=24), walk("C17", 200, 5000), walk("C17", 100, 2500, port="chars"), walk("C04", 60, 1500), walk("C17", 8, 200, geom="large", steps=60)],
    "rule": "the history variable need (rows whose appearance changed since the embedder last cleared the set) is carried by TLC over "
            "every recorded trace; need <= dirty <= rows is asserted after every event; the driver clears the set at random moments; "
            "vectors of the C04/C06/C07/C12/C13/C16 models start from a cleared set",
}
PLANS["C09"] = {
    "apalache": True,
    "props": ["C09"], "ops": [],
    "mc": [mcseq("C14seq", {"quick": 3, "thorough": 3}, ports({"api": 1}, {"api": 1})),
           mc("Psweep", geoms("GLong", "GLong"), ports({"api": 1, "chars": 3}, {"api": 1, "chars": 1}), invariants=["WellFormedInv", "Emit"]),
           {"module": "MCReach", "model": "reach", "kind": "screen", "view": "View", "constraint": "StackBound",
            "constants": {"MaxC": {"quick": 2, "thorough": 3}, "MaxL": {"quick": 2, "thorough": 2}, "Depth": 30},
            "invariants": ["WellFormedInv", "OriginConfined", "Emit"], "ports": ports({"api": 2}, {"api": 2, "chars": 9}), "workers": 8},
           terminal_sim(8, 300),
           mc("C05", geoms("GTiny", "GQuick"), ports({"api": 2, "chars": 5}, {"api": 1, "chars": 2})),
           mc("C16", geoms("GRowsQuick", "GRows"), ports({"api": 1}, {"api": 1})),
           mc("C14", geoms("GSmall", "GSmall"), ports({"api": 1}, ALLP)),
           mc("C12", geoms("GSmall", "GSmall"), ports({"api": 1, "chars": 1}, ALLP)),
           mc("C08", geoms("GTiny", "GTiny"), ports({"api": 1, "chars": 1}, ALLP))],
    "gen": [gen("star", 12, 300, focus="", steps=40, every=6, per=24), walk("", 200, 5000), walk("C16", 100, 2500), walk("", 100, 2500, port="chars"), gen("soup", 100, 3000),
            walk("", 12, 300, geom="large", steps=60), walk("C18", 60, 1500)],
    "rule": "WellFormed (cursor, margins, dirty indices, grid shape, colour values, display() row count) is asserted by TLC after "
            "construction and after every event of every trace: API walks with arguments absent or 0..9999, parser walks, byte soup, "
            "resizes in both directions, DECCOLM; vectors of the C05/C08/C12/C14/C16 models",
}
PLANS["C01"] = {
    "props": ["C01"], "ops": [],
    "mc": [mc("Psweep", geoms("GLong", "GLong"), ports({"api": 1, "chars": 3}, {"api": 1, "chars": 1}), invariants=["WellFormedInv", "Emit"]),
           mcseq("C13seq", {"quick": 3, "thorough": 4}, ports({"api": 3}, {"api": 1}), disp=True), mcseq("C16seq", {"quick": 3, "thorough": 3}, ports({"api": 5}, {"api": 1}), disp=True), mcseq("C14seq", {"quick": 3, "thorough": 3}, ports({"api": 3}, {"api": 1})),
           terminal_sim(8, 300),
           mc("C05", geoms("GTiny", "GQuick"), ports({"api": 3, "chars": 3}, {"api": 1, "chars": 1})),
           mc("C04", geoms("GTiny", "GQuick"), ports({"api": 5, "chars": 11}, {"api": 1, "chars": 2}), disp=True),
           mc("C06", geoms("GRowsQuick", "GRows"), ports({"api": 7, "chars": 11}, {"api": 1, "chars": 2}), disp=True),
           mc("C07", geoms("GRowsQuick", "GRows"), ports({"api": 3, "chars": 5}, {"api": 1, "chars": 2})),
           mc("C13", geoms("GCols", "GCols"), ports({"api": 1, "chars": 2}, ALLP), disp=True),
           mc("C12", geoms("GSmall", "GSmall"), ports({"api": 1, "chars": 1}, ALLP)),
           mc("C16", geoms("GRowsQuick", "GRows"), ports({"api": 2}, {"api": 1}), disp=True, display_after=True),
           mc("C08", geoms("GTiny", "GTiny"), ports({"api": 1, "chars": 1}, ALLP)),
           mc("C20", geoms("GTiny", "GTiny"), ports({"api": 3}, {"api": 1})),
           mcrec("directed", 1, True, ports({"chars": 1, "bytes": 2}, {"chars": 1, "chars1": 1, "bytes": 1})),
           mcrec("osc", 1, True, ports({"chars": 2, "bytes": 3}, {"chars": 1, "bytes": 1}))],
    "gen": [gen("star", 12, 300, focus="", steps=40, every=6, per=24), gen("soup", 400, 20000), walk("", 200, 6000), walk("", 100, 3000, port="chars"), walk("", 100, 3000, port="bytes", utf8=0),
            gen("recsoup", 200, 6000), gen("recsoup", 200, 6000, port="bytes"), walk("", 12, 400, geom="large", steps=60),
            gen("soup", 12, 400, geom="large"), gen("captured", 7, 140, maxbytes=1500)],
    "level": "exploration",
    "level_text": "Spec-generated vectors (every transition of the bounded models, with display() interposed) and seeded random inputs - byte "
                  "soup with every C0/C1 control, truncated/garbled sequences, invalid and split UTF-8 in both parser modes, API calls "
                  "with arguments absent or uniform in 0..9999, resizes, captured sessions cut at random offsets - are executed on the "
                  "real code under catch_unwind in a child process with a watchdog; TLC validates each trace: no event is a panic, and "
                  "after the universal reset word the probe character is delivered (not wedged). 'The process did not die' is necessarily "
                  "observed outside TLC, hence exploration.",
    "rule": "every call runs under catch_unwind (a panic is a trace event no specification action explains); the harness process runs "
            "under a watchdog, its death or timeout is attributed to the last begun history; each soup run ends with CAN BEL BEL + probe",
}
PLANS["C03"] = {
    "props": ["C03"], "ops": ["feed"],
    "mc": [mcrec("graph", {"quick": 5, "thorough": 6}, True, ports({"chars": 1, "chars1": 5, "bytes": 7}, {"chars": 1, "chars1": 5, "bytes": 7})),
           mcrec("graph", {"quick": 5, "thorough": 6}, False, ports({"chars": 1, "chars1": 5, "bytes": 7}, {"chars": 1, "chars1": 5, "bytes": 7})),
           mcrec("directed", 1, True, ports({"chars": 1, "chars1": 2, "bytes": 2}, {"chars": 1, "chars1": 1, "bytes": 1, "bytes1": 1})),
           mcrec("directed", 1, False, ports({"chars": 1}, {"chars": 1, "bytes": 1})),
           mcrec("osc", 1, True, ports({"chars": 2}, {"chars": 1, "bytes": 1})),
           mcrec("oscx", {"quick": 2, "thorough": 3}, True, ports({"chars": 2}, {"chars": 1, "bytes": 3})),
           mcrec("pairs", 1, True, ports({"chars": 1, "chars1": 2, "bytes": 3}, {"chars": 1, "chars1": 1, "bytes": 1, "bytes1": 2})),
           mcrec("pairs", 1, False, ports({"chars": 1}, {"chars": 1, "chars1": 2, "bytes": 2})),
           {"module": "MCRecAbs", "model": "rec-class-sweep", "kind": "rec", "constants": {"OscOnly": "FALSE"},
            "invariants": ["ClassAbstractionSound", "Accounted", "Emit"], "ports": ports({"chars": 1, "bytes": 5}, {"chars": 1, "bytes": 2, "chars1": 7}), "workers": 4}],
    "gen": [gen("recsoup", 600, 20000, chars=60), gen("recsoup", 200, 6000, chars=200), walk("", 100, 3000, port="chars"),
            walk("", 60, 2000, port="chars", utf8=0)],
    "rule": "random strings over one representative of every character class of the grammar (every C0 control, ESC, C1 CSI/OSC/ST, digits, "
            "; ? $ SP > # % ( ) [ ] \\, supported and unsupported finals, printable ASCII, non-ASCII), digit runs up to 40 digits, OSC "
            "strings with all terminators, random chunking, both parser modes; the listener events of every feed() call are compared by "
            "TLC with the specification's recogniser (state carried by TLC)",
}
PLANS["C19"] = {
    "props": ["C19"], "ops": ["feed", "title", "icon"],
    "mc": [mcrec("oscx", {"quick": 2, "thorough": 4}, True, ports({"chars": 1, "bytes": 2, "bytes1": 5}, {"chars": 1, "chars1": 3, "bytes": 2, "bytes1": 7})),
           mcrec("oscx", {"quick": 1, "thorough": 3}, False, ports({"chars": 1}, {"chars": 1, "bytes": 3})),
           mcrec("osc", 1, True, ports({"chars": 1, "chars1": 2, "bytes": 1, "bytes1": 3}, {"chars": 1, "chars1": 1, "bytes": 1, "bytes1": 1})),
           mcrec("osc", 1, False, ports({"chars": 1}, {"chars": 1, "chars1": 1})),
           {"module": "MCRecAbs", "model": "osc-class-sweep", "kind": "rec", "constants": {"OscOnly": "TRUE"},
            "invariants": ["ClassAbstractionSound", "Accounted", "Emit"], "ports": ports({"chars": 1, "bytes": 3}, {"chars": 1, "bytes": 2, "chars1": 5}), "workers": 4}],
    "gen": [gen("recsoup", 400, 12000, chars=60), gen("recsoup", 200, 6000, chars=60, port="bytes"), walk("C19", 120, 3000, port="chars"),
            walk("C19", 60, 1500, port="bytes"), walk("C19", 60, 1500)],
    "rule": "OSC strings with codes 0-3, 9, a; payloads over letters ; \\ ] space non-ASCII C0; terminators BEL, U+009C, ESC \; both "
            "introducers; random chunking; title/icon events equal the payload after the first ';'; on a screen, title/icon operations "
            "leave grid and cursor unchanged",
}
PLANS["C11"] = {
    "props": ["C11"], "ops": ["feed"],
    "mc": [{"module": "MCUtf8", "model": "utf8", "kind": "bytes", "constants": {"MaxLen": {"quick": 3, "thorough": 4}},
            "invariants": ["StreamingEqualsWhole", "NothingLost", "Emit"], "ports": ports({"bytes": 1}, {"bytes": 1})},
           {"module": "MCUtf8", "model": "utf8-deep", "kind": "bytes", "constants": {"MaxLen": {"quick": 4, "thorough": 5}}, "emit": False,
            "invariants": ["StreamingEqualsWhole", "NothingLost"], "ports": ports({"bytes": 1}, {"bytes": 1}), "workers": 8},
           {"module": "MCUtf8Abs", "model": "utf8-class-sweep", "kind": "bytes", "constants": {"RepTailsOnly": {"quick": "TRUE", "thorough": "FALSE"}},
            "invariants": ["TailsAreOK", "StepKeepsTailOK", "ClassAbstractionSound", "StepAccountsForByte", "Emit"], "ports": ports({"bytes": 1}, {"bytes": 1}), "workers": 4}],
    "gen": [gen("recsoup", 400, 12000, port="bytes", chars=60), gen("soup", 200, 6000), gen("captured", 7, 70, maxbytes=1200), gen("bigchunk", 3, 12)],
    "rule": "byte strings with well-formed 1-4 byte forms, overlongs, surrogates, > U+10FFFF, stray continuation bytes, truncated sequences, "
            "BOM, random chunking and mode switches between chunks; the text delivered to the listener per feed() call is compared by TLC "
            "with the specification's streaming decoder (pending tail carried by TLC)",
}
def mcstream(maxtok, utf8, p, **kw):
    d = {"module": "MCStream", "model": "stream-%s" % ("u" if utf8 else "e"), "kind": "stream",
         "constants": {"MaxTok": maxtok, "Utf8Mode": "TRUE" if utf8 else "FALSE", "Cols": 3, "Lines": 2},
         "invariants": ["ChunkIndependent", "Emit"], "ports": p}
    d.update(kw)
    return d

PLANS["C02"] = {
    "props": ["C02"], "ops": ["feed"],
    "mc": [mcstream({"quick": 2, "thorough": 3}, True, ports({"bytes": 1, "chars": 1}, {"bytes": 1, "chars": 2})),
           mcstream({"quick": 2, "thorough": 3}, False, ports({"bytes": 2, "chars": 3}, {"bytes": 2, "chars": 4})),
           mcstream({"quick": 3, "thorough": 4}, True, ports({"bytes": 1}, {"bytes": 1}), emit=False, tiers=("thorough",), workers=12)],
    "gen": [gen("chunkedsoup", 120, 4000, bytes=60), gen("chunkedsoup", 40, 1200, bytes=60, utf8=0), gen("chunkedsoup", 40, 1200, bytes=25, geom="tiny"),
            gen("chunked", 40, 1200, tokens=25), gen("chunked", 20, 600, tokens=25, utf8=0), gen("chunked", 20, 600, tokens=12, geom="tiny"),
            gen("captured", 7, 70, maxbytes=1500)],
    "rule": "each generated session (and each captured session prefix) is fed whole, one unit at a time, with one random cut, with random "
            "k-way cuts and with empty chunks inserted, through Parser (character cuts) and ByteParser (byte cuts, UTF-8 and 8-bit); TLC "
            "asserts that the final observable states of all runs of the same stream are equal",
}
