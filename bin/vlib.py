"""Shared plumbing for bin/check: builds the harness, runs it, runs TLC, parses TLC output.
Python only transports data; every judgement is made by TLC on the TLA+ specification."""
import json, os, re, subprocess, sys, time, shutil, collections, hashlib, concurrent.futures, threading

VERIF = os.path.dirname(os.path.dirname(os.path.abspath(__file__)))
SPEC = os.path.join(VERIF, "spec")
# development only: the mutant matrix (tools/matrix.py) points these at a scratch copy
HARNESS = os.environ.get("VERIF_DEV_HARNESS", os.path.join(VERIF, "harness"))
OUT = os.environ.get("VERIF_DEV_OUT", VERIF)
BIN = os.path.join(HARNESS, "target", "debug", "mtharness")
ALL_PROPS = ["C%02d" % i for i in range(1, 21)]
TRACE_PROPS = ALL_PROPS + ["ALL"]

class ToolError(Exception):
    pass

def build_harness():
    """cargo build against /repo's current working tree (cargo's own change detection)."""
    env = dict(os.environ, CARGO_NET_OFFLINE="true")
    r = subprocess.run(["cargo", "build", "--offline", "-q"], cwd=HARNESS, env=env,
                       stdout=subprocess.PIPE, stderr=subprocess.STDOUT, text=True)
    if r.returncode != 0:
        raise ToolError("cargo build failed:\n" + r.stdout[-4000:])

def harness(args, timeout=600):
    r = subprocess.run([BIN] + [str(a) for a in args], stdout=subprocess.PIPE, stderr=subprocess.PIPE,
                       text=True, timeout=timeout)
    return r

PRINT_RE = re.compile(r'^<<"(MISMATCH|SUMMARY|VEC|STUCK|INFO)", (.*)>>$')

def unq(s):
    """a TLC-printed string value -> python string"""
    s = s.strip()
    if s.startswith('"') and s.endswith('"'):
        s = s[1:-1]
    return s.replace('\\"', '"').replace('\\\\', '\\')

def tlc_env(extra=None, deque=True):
    env = dict(os.environ)
    opts = "-Xss1g"
    if deque:
        opts += " -Dtlc2.tool.queue.IStateQueue=StateDeque"
    env["JAVA_TOOL_OPTIONS"] = opts
    if extra:
        env.update(extra)
    return env

def run_trace(trace_path, props, workdir, timeout=1800, xmx="3g"):
    """validate one trace file against the specification; returns (mismatches, summary, tlc_stats)"""
    env = {"TRACE": trace_path}
    for p in TRACE_PROPS:
        env["P_" + p] = "1" if p in props else "0"
    md = os.path.join(workdir, "md-%d-%d" % (os.getpid(), int(time.time() * 1000) % 100000000))
    # -checkpoint 0: the depth-first StateDeque queue cannot be checkpointed (TLC aborts at its first checkpoint, 30 minutes in)
    cmd = tlc_cmd(["-workers", "1", "-checkpoint", "0", "-metadir", md, "-cleanup", "-noGenerateSpecTE", "-config", "Trace.cfg", "Trace.tla"], xmx, serial=True)
    t0 = time.time()
    try:
        r = subprocess.run(cmd, cwd=SPEC, env=tlc_env(env), stdout=subprocess.PIPE, stderr=subprocess.STDOUT,
                           text=True, timeout=timeout)
    except subprocess.TimeoutExpired:
        raise ToolError("TLC timed out validating " + trace_path)
    finally:
        shutil.rmtree(md, ignore_errors=True)
    mism, summary = [], None
    for line in r.stdout.splitlines():
        m = PRINT_RE.match(line)
        if not m:
            continue
        if m.group(1) == "MISMATCH":
            mism.append(json.loads(unq(m.group(2))))
        elif m.group(1) == "SUMMARY":
            summary = json.loads(unq(m.group(2)))
        elif m.group(1) == "STUCK":
            raise ToolError("trace not fully consumed: " + line)
    if summary is None or "Model checking completed. No error has been found." not in r.stdout:
        raise ToolError("TLC failed on %s:\n%s" % (trace_path, r.stdout[-3000:]))
    return mism, summary, {"wall_s": time.time() - t0}

_TLC = None
def tlc_cmd(args, xmx="3g", serial=False):
    """java command line equivalent to the `tlc` wrapper on PATH (same jar/classpath), with -Xmx"""
    global _TLC
    if _TLC is None:
        w = shutil.which("tlc")
        txt = open(w).read() if w else ""
        m = re.search(r'-cp\s+(\S+)', txt)
        _TLC = m.group(1) if m else "/opt/veriftools/tla/tla2tools.jar"
    gc = ["-XX:+UseSerialGC"] if serial else ["-XX:+UseParallelGC", "-XX:ParallelGCThreads=4"]
    # -Xss on the command line (JAVA_TOOL_OPTIONS does not reach the main thread, which computes the initial states)
    return ["java", "-Xss512m", "-Xmx" + xmx] + gc + ["-cp", _TLC, "tlc2.TLC"] + args

# ---------------------------------------------------------------------------------------
KNOWN = os.path.join(VERIF, "known_findings.json")

def load_known():
    try:
        return json.load(open(KNOWN))
    except FileNotFoundError:
        return {"findings": [], "fixed": []}

def violation_key(m):
    return "%s|%s|%s|%s" % (m["prop"], m["kind"], m["op"], ",".join(sorted(str(b) for b in m["bad"])))

WIRE_ALIAS = {"cup": ["cup", "hvp"], "cuf": ["cuf", "hpr"], "cud": ["cud", "vpr"], "lf": ["lf", "vt", "ff", "nel"]}
MC_STATS = re.compile(r"(\d+) states generated, (\d+) distinct states found")

def nshards(tier):
    return 8 if tier == "quick" else 12

class Run:
    def __init__(self, prop, tier, seed, wd, plan):
        self.prop, self.tier, self.seed, self.wd, self.plan = prop, tier, seed, wd, plan
        self.n = nshards(tier)
        self.hist = [os.path.join(wd, "hist-%d.ndjson" % k) for k in range(self.n)]
        self.hf = [open(p, "w") for p in self.hist]
        self.nhist = 0
        self.mc_runs, self.samples, self.notes = [], [], []
        self.states = self.transitions = 0
        self.mism, self.summary = [], collections.Counter()
        self.crashes = []
        self.distinct = set()
        self.violations = 0
        self.known_hits = []
        self.apalache = None
        self.lock = threading.Lock()

    # ---- MC + GEN ------------------------------------------------------------------
    def run_mc(self, job):
        tier = self.tier
        module = job.get("module", "MC")
        name = "%s_%s_%s" % (module, job["model"], tier)
        cfg = os.path.join(SPEC, ".gen_%s_%d_%d.cfg" % (name, os.getpid(), id(job) % 100000))
        default_inv = {"MC": ["Holds", "WellFormedInv", "DirtyInv", "SelfInv", "Emit"]}
        inv = job.get("invariants", default_inv.get(module, ["Emit"]))
        with open(cfg, "w") as f:
            f.write("SPECIFICATION Spec\n" + ("" if job.get("plain") else "CONSTANTS\n"))
            if module == "MC":
                f.write("  Model = \"%s\"\n  Geoms <- %s\n  TextLen = %d\n  SgrMax = %d\n  ModeMax = %d\n" %
                        (job["model"], job["geoms"][tier], job.get("textlen", {}).get(tier, 2),
                         job.get("sgrmax", {}).get(tier, 110), job.get("modemax", {}).get(tier, 40)))
            if not job.get("simulate") and not job.get("plain"):
                f.write("  EmitVectors = %s\n" % ("TRUE" if job.get("emit", True) else "FALSE"))
            for k, v in job.get("constants", {}).items():
                val = v[tier] if isinstance(v, dict) else v
                if str(val).startswith("<-"):
                    f.write("  %s %s\n" % (k, val))
                else:
                    f.write("  %s = %s\n" % (k, val))
            if job.get("view"):
                f.write("VIEW %s\n" % job["view"])
            if job.get("constraint"):
                f.write("CONSTRAINT %s\n" % job["constraint"])
            f.write("INVARIANTS " + " ".join(inv) + "\nCHECK_DEADLOCK FALSE\n")
        md = os.path.join(self.wd, "md-" + name + "-%d" % (id(job) % 100000))
        sim = job.get("simulate")
        simargs = ["-simulate", "num=%d" % sim["num"][tier], "-depth", str(sim["depth"]), "-seed", str(self.seed)] if sim else []
        cmd = tlc_cmd(["-workers", str(job.get("workers", 6))] + simargs + ["-metadir", md, "-cleanup", "-noGenerateSpecTE",
                       "-config", os.path.basename(cfg), module + ".tla"], job.get("xmx", "8g"))
        ports = job["ports"][tier]
        t0 = time.time()
        nvec = 0
        tail = collections.deque(maxlen=80)
        try:
            p = subprocess.Popen(cmd, cwd=SPEC, env=tlc_env(deque=False), stdout=subprocess.PIPE,
                                 stderr=subprocess.STDOUT, text=True)
            for line in p.stdout:
                if line.startswith('<<"VEC"'):
                    m = PRINT_RE.match(line.rstrip("\n"))
                    vec = json.loads(unq(m.group(2)))
                    getattr(self, "add_vector_" + job.get("kind", "screen"))(job, vec, nvec, ports)
                    nvec += 1
                else:
                    tail.append(line)
            p.wait(timeout=job.get("timeout", 3600))
        finally:
            try: os.remove(cfg)
            except OSError: pass
            shutil.rmtree(md, ignore_errors=True)
        out = "".join(tail)
        m = MC_STATS.search(out)
        if sim:
            ms = re.search(r"The number of states generated: (\d+)", out)
            if "Error" in out or not ms:
                raise ToolError("simulation %s failed (the specification violates its own invariant):\n%s" % (name, out[-3500:]))
            with self.lock:
                self.transitions += int(ms.group(1))
            self.mc_runs.append({"module": module, "model": job["model"], "mode": "simulate", "num": sim["num"][tier], "depth": sim["depth"],
                                 "states_generated": int(ms.group(1)), "invariants": inv, "wall_s": round(time.time() - t0, 1)})
            return
        if "Model checking completed. No error has been found." not in out or not m:
            raise ToolError("MC run %s did not complete cleanly (the specification itself fails its own "
                            "property or could not be evaluated):\n%s" % (name, out[-3500:]))
        gen, dist = int(m.group(1)), int(m.group(2))
        with self.lock:
            self.states += dist
            self.transitions += gen
        self.mc_runs.append({"module": module, "model": job["model"], "bounds": job.get("geoms", {}).get(tier) or {k: (v[tier] if isinstance(v, dict) else v) for k, v in job.get("constants", {}).items()},
                             "states_distinct": dist, "states_generated": gen, "vectors": nvec, "invariants": inv,
                             "wall_s": round(time.time() - t0, 1)})

    def put(self, h, kind):
        line = json.dumps(h, separators=(",", ":")) + "\n"
        with self.lock:
            self.hf[self.nhist % self.n].write(line)
            self.nhist += 1
            if len([x for x in self.samples if x["kind"] == kind]) < 2:
                self.samples.append({"kind": kind, "history": h})

    def clear_after_setup(self):
        """C17: every vector starts from a cleared dirty set, so that a row the judged operation fails to mark is
        not hidden by the marks the setup history left behind"""
        if "C17" in self.plan.get("props", []):
            return [{"op": "cleardirty", "p": [], "s": [], "pr": False, "wm": []}]
        return []

    def add_vector_seq(self, job, vec, idx, ports):
        """a multi-step sequence (MCSeq): setup, then every event logged and judged"""
        for port, every in ports.items():
            if idx % every != 0:
                continue
            evs = [dict(e, port=("api" if e["op"] in ("resize", "display", "cleardirty") else port)) for e in vec["evs"]]
            for disp in ([False, True] if job.get("disp") and port == "api" else [False]):
                h = {"id": "%s-v%d-%s%s" % (job["model"], idx, port, "-d" if disp else ""), "sid": "", "cmp": "", "C": vec["C"], "L": vec["L"],
                     "scr": True, "utf8": True, "dispsetup": disp, "setup": vec["setup"] + self.clear_after_setup(), "evs": evs}
                self.put(h, "vector-" + job["model"])

    def add_vector_rec(self, job, vec, idx, ports):
        """a recogniser string: fed whole / one character at a time (chars), and as bytes"""
        s, utf8 = vec["s"], vec["utf8"]
        base = {"sid": "", "cmp": "", "C": 4, "L": 3, "scr": False, "utf8": utf8}
        for port, every in ports.items():
            if idx % every != 0:
                continue
            if port == "chars":
                evs = [{"op": "feed", "p": [], "s": s, "pr": False, "port": "chars"}]
            elif port == "chars1":
                evs = [{"op": "feed", "p": [], "s": [c], "pr": False, "port": "chars"} for c in s]
            else:
                if utf8:
                    b = list("".join(chr(c) for c in s).encode("utf-8"))
                elif all(c < 256 for c in s):
                    b = s
                else:
                    continue
                if port == "bytes":
                    evs = [{"op": "feedb", "p": [], "s": [], "pr": False, "port": "bytes", "b": b}]
                else:
                    evs = [{"op": "feedb", "p": [], "s": [], "pr": False, "port": "bytes", "b": [x]} for x in b]
            self.put(dict(base, id="%s-%s-v%d-%s" % (job["model"], "u" if utf8 else "e", idx, port), evs=evs), "vector-" + job["model"])

    def add_vector_bytes(self, job, vec, idx, ports):
        """a byte string with cut placements (MCUtf8): chunks fed one feed() call each"""
        base = {"sid": "", "cmp": "", "C": 4, "L": 3, "scr": False, "utf8": True}
        evs = []
        for i, ch in enumerate(vec["chunks"]):
            if vec.get("sw") and i == 1:
                evs.append({"op": "utf8", "p": [0], "s": [], "pr": False, "port": "api"})
            if vec.get("sw") == 3 and i == 2:
                evs.append({"op": "utf8", "p": [1], "s": [], "pr": False, "port": "api"})
            evs.append({"op": "feedb", "p": [], "s": [], "pr": False, "port": "bytes", "b": ch})
        self.put(dict(base, id="%s-v%d" % (job["model"], idx), evs=evs), "vector-" + job["model"])

    def add_vector_stream(self, job, vec, idx, ports):
        """a token stream with every cut placement (MCStream): same sid, compared under C02"""
        for port, every in ports.items():
            if idx % every != 0:
                continue
            group = []
            for k, chunks in enumerate(vec["cuts"]):
                if port == "bytes":
                    evs = [{"op": "feedb", "p": [], "s": [], "pr": False, "port": "bytes", "b": c} for c in chunks["b"]]
                else:
                    evs = [{"op": "feed", "p": [], "s": c, "pr": False, "port": "chars"} for c in chunks["s"]]
                h = {"id": "%s-v%d-%s-%d" % (job["model"], idx, port, k), "sid": "%s-v%d-%s" % (job["model"], idx, port), "cmp": "C02",
                     "C": vec["C"], "L": vec["L"], "scr": True, "utf8": vec.get("utf8", True), "evs": evs}
                # all cut placements of one stream go to the same shard, contiguously
                group.append(json.dumps(h, separators=(",", ":")) + "\n")
            with self.lock:
                self.hf[idx % self.n].write("".join(group))
                self.nhist += len(group)
                if len([x for x in self.samples if x["kind"] == "vector-stream"]) < 2:
                    self.samples.append({"kind": "vector-stream", "history": h})

    def add_vector_screen(self, job, vec, idx, ports):
        for port, every in ports.items():
            if idx % every != 0:
                continue
            for disp in ([False, True] if job.get("disp") and port == "api" else [False]):
                ev = dict(vec["ev"], port=port)
                if port != "api" and ev["op"] in WIRE_ALIAS:      # the alternative finals / controls of the same operation
                    al = WIRE_ALIAS[ev["op"]]
                    ev["op"] = al[(idx // every) % len(al)]
                h = {"id": "%s-v%d-%s%s" % (job["model"], idx, port, "-d" if disp else ""), "sid": "", "cmp": "",
                     "C": vec["C"], "L": vec["L"], "scr": True, "utf8": True, "dispsetup": disp,
                     "setup": vec["setup"] + self.clear_after_setup(), "evs": [ev] + ([{"op": "display", "p": [], "s": [], "pr": False, "port": "api"}] if job.get("display_after") else [])}
                self.put(h, "vector-" + job["model"])

    def run_gen(self, job):
        count = job["count"][self.tier]
        per = max(1, count // self.n)
        for k in range(self.n):
            tmp = os.path.join(self.wd, "gen-%d.ndjson" % k)
            opts = ["%s=%s" % kv for kv in job.get("opts", {}).items()]
            seed = self.seed * 1000 + k * 37 + job.get("salt", 0)
            r = harness(["gen", job["driver"], seed, per, tmp] + opts)
            if r.returncode != 0:
                raise ToolError("generator failed: " + r.stderr[-2000:])
            for line in open(tmp):
                self.hf[k].write(line)
                self.nhist += 1
                if len([s for s in self.samples if s["kind"] == job["driver"]]) < 1:
                    h = json.loads(line)
                    h["evs"] = h["evs"][:12]
                    self.samples.append({"kind": job["driver"], "history_prefix": h})
            os.remove(tmp)

    def run_apalache(self):
        """unbounded check of the cursor / margin arithmetic (spec/CursorGeom.tla): IndInv is inductive"""
        out = os.path.join(self.wd, "apalache")
        res = []
        for args, what in ((["--init=Init", "--inv=IndInv", "--length=0"], "Init => IndInv"),
                           (["--init=IndInit", "--inv=IndInv", "--length=1"], "IndInv /\\ Next => IndInv'")):
            t0 = time.time()
            try:
                os.makedirs(out, exist_ok=True)
                r = subprocess.run(["apalache-mc", "check"] + args + ["--out-dir=" + out, "CursorGeom.tla"], cwd=SPEC,
                                   env=dict(os.environ, TMPDIR=out, JAVA_IO_TMPDIR=out),
                                   stdout=subprocess.PIPE, stderr=subprocess.STDOUT, text=True, timeout=900)
            except subprocess.TimeoutExpired:
                raise ToolError("apalache-mc timed out")
            if "The outcome is: NoError" not in r.stdout:
                raise ToolError("Apalache does not confirm the inductive cursor invariant (%s):\n%s" % (what, r.stdout[-2500:]))
            res.append({"obligation": what, "outcome": "NoError", "wall_s": round(time.time() - t0, 1)})
        shutil.rmtree(out, ignore_errors=True)
        # binding of the typed fragment to ScreenOps: every step of every CursorGeom action is the step Apply takes (TLC)
        t0 = time.time()
        size, par = (3, 5) if self.tier == "quick" else (4, 7)
        cfg = os.path.join(self.wd, "MCCursorGeom.cfg")
        with open(cfg, "w") as f:
            f.write("SPECIFICATION MCSpec\nCONSTANTS MaxSize = %d\n MaxPar = %d\nINVARIANT Inv\nPROPERTY Refines\nCHECK_DEADLOCK FALSE\n" % (size, par))
        meta = os.path.join(self.wd, "mcg")
        try:
            r = subprocess.run(tlc_cmd(["-workers", "8", "-metadir", meta, "-cleanup", "-noGenerateSpecTE", "-config", cfg, "MCCursorGeom.tla"]),
                               cwd=SPEC, stdout=subprocess.PIPE, stderr=subprocess.STDOUT, text=True, timeout=1800)
        except subprocess.TimeoutExpired:
            raise ToolError("TLC timed out on MCCursorGeom")
        m = re.search(r"(\d+) states generated, (\d+) distinct states found, 0 states left", r.stdout)
        if "Model checking completed. No error has been found." not in r.stdout or not m:
            raise ToolError("CursorGeom.tla is not a refinement of ScreenOps.tla (MCCursorGeom):\n%s" % r.stdout[-3000:])
        res.append({"obligation": "every CursorGeom step = ScreenOps!Apply on the corresponding event (TLC, sizes <= %d and 132 columns, parameters -1..%d and 9999)" % (size, par),
                    "outcome": "NoError", "steps_checked": int(m.group(1)), "wall_s": round(time.time() - t0, 1)})
        shutil.rmtree(meta, ignore_errors=True)
        self.apalache = res

    # ---- replay on the implementation ----------------------------------------------
    def replay_shard(self, k):
        hist, trace = self.hist[k], os.path.join(self.wd, "trace-%d.ndjson" % k)
        open(trace, "w").close()
        crashes = []
        cur = hist
        for attempt in range(25):
            part = trace + ".part"
            try:
                r = harness(["replay", cur, part], timeout=self.plan.get("replay_timeout", 300 if self.tier == "quick" else 1200))
                rc, timed = r.returncode, False
            except subprocess.TimeoutExpired:
                rc, timed = -9, True
            lines = open(part).read().split("\n") if os.path.exists(part) else []
            if rc == 0:
                with open(trace, "a") as f:
                    f.write("\n".join(l for l in lines if l) + "\n")
                break
            # abnormal end: the last begun history is the culprit
            last_begin = max((i for i, l in enumerate(lines) if l.startswith('{"k":"begin"')), default=None)
            if last_begin is None:
                raise ToolError("harness failed before running anything: rc=%s" % rc)
            culprit = json.loads(lines[last_begin])["id"]
            crashes.append({"id": culprit, "rc": rc, "timeout": timed})
            with open(trace, "a") as f:
                f.write("\n".join(l for l in lines[:last_begin] if l) + "\n")
            rest, seen = [], False
            for l in open(cur):
                if seen:
                    rest.append(l)
                elif json.loads(l)["id"] == culprit:
                    seen = True
                    crashes[-1]["history"] = json.loads(l)
            cur = hist + ".rest%d" % attempt
            open(cur, "w").writelines(rest)
            if not rest:
                break
        return trace, crashes

    def split_trace(self, trace, limit=24_000_000):
        """parts of a trace file, each below `limit` bytes, cut only between histories of different comparison groups
        (TLC holds the whole deserialised trace in memory; a part is what one JVM validates)"""
        if os.path.getsize(trace) <= limit:
            return [(trace, 0)]
        parts, cur, size, n, prev_sid = [], None, 0, 0, None
        with open(trace) as f:
            for line in f:
                if line.startswith('{"k":"begin"'):
                    m = re.search(r'"sid":"([^"]*)"', line)
                    sid = m.group(1) if m else ""
                    if cur is None or (size > limit and (sid == "" or sid != prev_sid)):
                        if cur: cur.close()
                        path = "%s.p%d" % (trace, len(parts))
                        parts.append((path, n))
                        cur, size = open(path, "w"), 0
                    prev_sid = sid
                if cur is None:
                    path = "%s.p%d" % (trace, len(parts))
                    parts.append((path, n))
                    cur = open(path, "w")
                cur.write(line); size += len(line); n += 1
        if cur: cur.close()
        return parts

    def validate_shard(self, k, trace):
        if os.path.getsize(trace) < 5:
            return [], {}, 0.0
        allm, alls, wall = [], collections.Counter(), 0.0
        for path, offset in self.split_trace(trace):
            mism, summary, st = run_trace(path, self.plan["props"], self.wd, timeout=self.plan.get("tv_timeout", 3000),
                                          xmx=self.plan.get("tv_xmx", "3g"))
            for m in mism:
                m["shard"] = k
                m["line"] += offset
            allm.extend(mism); alls.update(summary); wall += st["wall_s"]
            if path != trace:
                os.remove(path)
        return allm, alls, wall

    def count_distinct(self, trace):
        ops = set(self.plan.get("ops", []))
        prev = None
        with open(trace) as f:
            for line in f:
                if not line.startswith('{"k":"op"') and not line.startswith('{"k":"feed"') and not line.startswith('{"k":"sync"') and not line.startswith('{"k":"new"'):
                    continue
                d = json.loads(line)
                if d["k"] in ("new", "sync"):
                    p = d["post"]; prev = (p.get("L"), p.get("C"), p.get("x"), p.get("y"), str(p.get("mar")), str(p.get("modes")))
                    continue
                if d["k"] == "op":
                    ev = d["ev"]
                    if not ops or ev["op"] in ops:
                        self.distinct.add(hash((ev["op"], str(ev["p"]), str(ev["s"]), ev["pr"], prev)))
                    p = d["post"]; prev = (p.get("L"), p.get("C"), p.get("x"), p.get("y"), str(p.get("mar")), str(p.get("modes")))
                elif "feed" in ops or not ops:
                    ev = d["ev"]
                    self.distinct.add(hash((str(ev.get("ws")), str(ev.get("wb")))))

    # ---- main ------------------------------------------------------------------------
    def execute(self):
        jobs = [j for j in self.plan.get("mc", []) if self.tier in j.get("tiers", ("quick", "thorough"))]
        if jobs:      # up to three bounded models at a time
            with concurrent.futures.ThreadPoolExecutor(max_workers=3) as ex:
                list(ex.map(self.run_mc, jobs))
        if self.plan.get("apalache"):
            self.run_apalache()
        for job in self.plan.get("gen", []):
            if job["count"].get(self.tier, 0) > 0:
                self.run_gen(job)
        for f in self.hf:
            f.close()
        with concurrent.futures.ThreadPoolExecutor(max_workers=self.n) as ex:
            rep = list(ex.map(self.replay_shard, range(self.n)))
        for trace, crashes in rep:
            self.crashes.extend(crashes)
        with concurrent.futures.ThreadPoolExecutor(max_workers=self.n) as ex:
            res = list(ex.map(lambda k: self.validate_shard(k, rep[k][0]), range(self.n)))
        for k, (mism, summary, wall) in enumerate(res):
            self.mism.extend(mism)
            self.summary.update(summary)
            self.count_distinct(rep[k][0])
        return self.report(rep)

    def history_of(self, shard, trace, line):
        """the history (as given to the harness) that produced trace line `line` (1-based)"""
        hid = None
        with open(trace) as f:
            for i, l in enumerate(f, 1):
                if l.startswith('{"k":"begin"'):
                    hid = json.loads(l)["id"]
                if i >= line:
                    break
        found = None
        hs = [json.loads(l) for l in open(self.hist[shard])]
        for h in hs:
            if h["id"] == hid:
                found = h
        if found is None:
            return {"id": hid}
        if found.get("sid"):
            # a comparison group (C02 / C10): the replay needs every run of the same stream
            found = dict(found, group=[h for h in hs if h.get("sid") == found["sid"]])
        return found

    def report(self, rep):
        known = load_known()
        keys = {(f["property"], f["key"]): f for f in known.get("findings", [])}
        os.makedirs(os.path.join(OUT, "replays", self.prop), exist_ok=True)
        seen_new, printed_known = {}, set()
        # crashes (abort / stack overflow / hang of the process) are C01's
        if self.prop == "C01":
            for c in self.crashes:
                m = {"prop": "C01", "kind": "crash", "op": "process", "bad": ["timeout" if c["timeout"] else "abort"],
                     "line": 0, "info": {"rc": c["rc"]}, "shard": -1, "_history": c.get("history", {"id": c["id"]})}
                self.mism.append(m)
        for m in self.mism:
            if m["prop"] != self.prop:
                continue
            key = violation_key(m)
            if (self.prop, key) in keys:
                if key not in printed_known:
                    printed_known.add(key)
                    print("KNOWN-FINDING: property=%s %s (%s)" % (self.prop, keys[(self.prop, key)].get("what", ""), key))
                self.known_hits.append(key)
                continue
            self.violations += 1
            if key in seen_new:
                seen_new[key]["count"] += 1
                continue
            h = m.get("_history") or self.history_of(m["shard"], rep[m["shard"]][0], m["line"])
            path = os.path.join(OUT, "replays", self.prop, hashlib.sha1((key + h.get("id", "")).encode()).hexdigest()[:12] + ".json")
            json.dump({"property": self.prop, "key": key, "tier": self.tier, "seed": self.seed,
                       "mismatch": {k: v for k, v in m.items() if not k.startswith("_")}, "history": h},
                      open(path, "w"), indent=1)
            seen_new[key] = {"count": 1, "path": path}
            print("VIOLATION property=%s replay=%s" % (self.prop, path))
            print("  key=%s op=%s p=%s info=%s" % (key, m["op"], m.get("p"), json.dumps(m.get("info"))[:600]))
        self.new_keys = seen_new
        return 1 if seen_new else 0

    def write_evidence(self, wall):
        judged = int(self.summary.get(self.prop, 0))
        cov = {
            "states": self.states, "transitions": self.transitions,
            "traces_validated_against_impl": self.nhist,
            "samples": self.samples[:4] or [{"note": "no histories"}],
            "evaluations": judged, "distinct_nontrivial": len(self.distinct),
            "rule": self.plan.get("rule", "") + " | evaluations = trace lines on which TLC evaluated this property's predicate; "
                    "distinct_nontrivial = distinct (event, geometry, cursor, margins, modes) pairs among judged lines "
                    "(grid content ignored, so an under-count)",
            "exhaustive": bool(self.plan.get("mc")) and self.tier == "thorough",
            "checker_cmd": "tlc (TLC2, tla2tools.jar) on spec/MC.tla and spec/Trace.tla",
            "trusted_base": ["TLC/SANY and the CommunityModules Json/IOUtils modules", "harness projection (harness/src/project.rs)",
                             "unicode-width / unicode-normalization as environment facts (display width, combining)",
                             "the reading of the property statement in spec/Props.tla and spec/Decl.tla"],
            "mc_runs": self.mc_runs, "tv_counters": dict(self.summary),
            "apalache_inductive_invariant": self.apalache,
            "crashed_histories": len(self.crashes), "known_finding_hits": len(self.known_hits),
            "setup_mismatch": int(self.summary.get("setup_mismatch", 0)),
            "skipped_illformed": int(self.summary.get("skipped_illformed", 0)),
        }
        if not self.mc_runs:
            cov["states"] = max(1, int(self.summary.get("lines", 0)))
            cov["transitions"] = max(1, int(self.summary.get("ops", 0)) + int(self.summary.get("feeds", 0)))
            cov["explanation_states"] = "no bounded model in this tier: states/transitions count the states and steps of the trace-validation runs"
        ev = {"property_id": self.prop, "tier": self.tier, "seed": self.seed, "level": self.plan.get("level", "model_checking"),
              "coverage": cov, "assumptions": self.plan.get("assumptions", DEFAULT_ASSUMPTIONS), "wall_s": round(wall, 1),
              "violations": self.violations}
        os.makedirs(os.path.join(OUT, "evidence"), exist_ok=True)
        json.dump(ev, open(os.path.join(OUT, "evidence", self.prop + ".json"), "w"), indent=1)

DEFAULT_ASSUMPTIONS = [
    "implementation conformance is established for the explored transitions only (bounded-exhaustive families, multi-step sequence models, seeded random histories)",
    "characters are explored by class (one or a few representatives per class the code distinguishes); display width and combining-ness of each character are environment facts logged by the harness from unicode-width / unicode-normalization",
    "geometries are enumerated exhaustively only on the small sets named in mc_runs; larger ones (up to 140x40, DECCOLM 132) are reached by random walks",
    "the projection of the screen (harness/src/project.rs) reads public fields and treats a never-written cell as the screen's default character",
    "where the statement leaves an outcome open (DESIGN.md 5.3) every allowed outcome is accepted",
]

def do_replay(prop, path, wd):
    from plans import PLANS
    rp = json.load(open(path))
    h = rp["history"]
    hist, trace = os.path.join(wd, "h.ndjson"), os.path.join(wd, "t.ndjson")
    group = h.pop("group", None) or [h]
    open(hist, "w").write("".join(json.dumps(x) + "\n" for x in group))
    try:
        r = harness(["replay", hist, trace], timeout=300)
        rc = r.returncode
    except subprocess.TimeoutExpired:
        rc = -9
    if rc != 0:
        print("VIOLATION property=%s replay=%s" % (prop, path)); print("  the process died or hung (rc=%s)" % rc)
        return 1
    mism, summary, st = run_trace(trace, PLANS[prop]["props"], wd)
    mine = [m for m in mism if m["prop"] == prop]
    for m in mine:
        print("  mismatch:", json.dumps(m)[:1500])
    if mine:
        print("VIOLATION property=%s replay=%s" % (prop, path))
        return 1
    print("replay: property %s holds on this history (%d lines judged)" % (prop, summary.get(prop, 0)))
    return 0
