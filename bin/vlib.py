"""Shared plumbing for bin/check: builds the harness, runs it, runs TLC, parses TLC output.
Python only transports data; every judgement is made by TLC on the TLA+ specification."""
import json, os, re, subprocess, sys, time, shutil, collections

VERIF = os.path.dirname(os.path.dirname(os.path.abspath(__file__)))
SPEC = os.path.join(VERIF, "spec")
HARNESS = os.path.join(VERIF, "harness")
BIN = os.path.join(HARNESS, "target", "debug", "mtharness")
ALL_PROPS = ["C%02d" % i for i in range(1, 21)]
TRACE_PROPS = ALL_PROPS + ["ALL"]

class ToolError(Exception):
    pass

def build_harness():
    """cargo build against /repo's current working tree (cargo's own change detection)."""
    env = dict(os.environ, CARGO_NET_OFFLINE="true")
    r = subprocess.run(["cargo", "build", "--offline", "-q"], cwd=HARNESS, env=env,
                       stdout=subprocess.PIPE, stderr=subprocess.STDOUT, text=True)
    if r.returncode != 0:
        raise ToolError("cargo build failed:\n" + r.stdout[-4000:])

def harness(args, timeout=600):
    r = subprocess.run([BIN] + [str(a) for a in args], stdout=subprocess.PIPE, stderr=subprocess.PIPE,
                       text=True, timeout=timeout)
    return r

PRINT_RE = re.compile(r'^<<"(MISMATCH|SUMMARY|VEC|STUCK|INFO)", (.*)>>$')

def unq(s):
    """a TLC-printed string value -> python string"""
    s = s.strip()
    if s.startswith('"') and s.endswith('"'):
        s = s[1:-1]
    return s.replace('\\"', '"').replace('\\\\', '\\')

def tlc_env(extra=None, deque=True):
    env = dict(os.environ)
    opts = "-Xss1g"
    if deque:
        opts += " -Dtlc2.tool.queue.IStateQueue=StateDeque"
    env["JAVA_TOOL_OPTIONS"] = opts
    if extra:
        env.update(extra)
    return env

def run_trace(trace_path, props, workdir, timeout=1800, xmx="3g"):
    """validate one trace file against the specification; returns (mismatches, summary, tlc_stats)"""
    env = {"TRACE": trace_path}
    for p in TRACE_PROPS:
        env["P_" + p] = "1" if p in props else "0"
    md = os.path.join(workdir, "md-%d-%d" % (os.getpid(), int(time.time() * 1000) % 100000000))
    cmd = tlc_cmd(["-workers", "1", "-metadir", md, "-cleanup", "-noGenerateSpecTE", "-config", "Trace.cfg", "Trace.tla"], xmx)
    t0 = time.time()
    try:
        r = subprocess.run(cmd, cwd=SPEC, env=tlc_env(env), stdout=subprocess.PIPE, stderr=subprocess.STDOUT,
                           text=True, timeout=timeout)
    except subprocess.TimeoutExpired:
        raise ToolError("TLC timed out validating " + trace_path)
    finally:
        shutil.rmtree(md, ignore_errors=True)
    mism, summary = [], None
    for line in r.stdout.splitlines():
        m = PRINT_RE.match(line)
        if not m:
            continue
        if m.group(1) == "MISMATCH":
            mism.append(json.loads(unq(m.group(2))))
        elif m.group(1) == "SUMMARY":
            summary = json.loads(unq(m.group(2)))
        elif m.group(1) == "STUCK":
            raise ToolError("trace not fully consumed: " + line)
    if summary is None or "Model checking completed. No error has been found." not in r.stdout:
        raise ToolError("TLC failed on %s:\n%s" % (trace_path, r.stdout[-3000:]))
    return mism, summary, {"wall_s": time.time() - t0}

_TLC = None
def tlc_cmd(args, xmx="3g"):
    """java command line equivalent to the `tlc` wrapper on PATH (same jar/classpath), with -Xmx"""
    global _TLC
    if _TLC is None:
        w = shutil.which("tlc")
        txt = open(w).read() if w else ""
        m = re.search(r'-cp\s+(\S+)', txt)
        _TLC = m.group(1) if m else "/opt/veriftools/tla/tla2tools.jar"
    return ["java", "-Xmx" + xmx, "-XX:+UseParallelGC", "-cp", _TLC, "tlc2.TLC"] + args
